// C03 — GenBank write-then-read is the identity and writing is deterministic.
package c03

import (
	"fmt"
	"os"
	"path/filepath"
	"strings"
	"testing"

	"github.com/TimothyStiles/poly"
	"github.com/TimothyStiles/poly/io/genbank"
	"pgregory.net/rapid"
	"verifharness/internal/gbk"
	"verifharness/internal/vk"
)

const knownWriter = "K-C03-1" // root cause K-C02-1: a 3' partial span is written as n..m>

type Case struct {
	Kind   string     `json:"kind"` // parsed (x = Parse of the record laid out by the harness) | structured (x assembled directly)
	Record gbk.Record `json:"record"`
	// structured: which features carry cached location text (by index, cyclic); the others only a location tree
	Cached      []bool `json:"cached,omitempty"`
	NoExclusion bool   `json:"no_exclusion,omitempty"`
}

// assemble builds the poly.Sequence directly from the abstract record (GenBank-carried fields only).
func assemble(c Case) poly.Sequence {
	r := c.Record
	e := r.Expected()
	x := poly.Sequence{Sequence: e.Sequence}
	x.Meta.Locus = e.Locus
	x.Meta.Locus.SequenceCoding = "bp"
	x.Meta.Definition, x.Meta.Accession, x.Meta.Version, x.Meta.Keywords, x.Meta.Source, x.Meta.Organism = e.Definition, e.Accession, e.Version, e.Keywords, e.Source, e.Organism
	x.Meta.References = e.References
	x.Meta.Other = map[string]string{}
	for k, v := range e.Other {
		x.Meta.Other[k] = v
	}
	for i, f := range r.Features {
		ft := poly.Feature{Type: f.Key, Attributes: map[string]string{}, SequenceLocation: f.Loc.Structure()}
		if len(c.Cached) == 0 || c.Cached[i%len(c.Cached)] {
			ft.GbkLocationString = f.Loc.Text()
		}
		for _, q := range f.Qualifiers {
			ft.Attributes[q.Key] = q.Value()
		}
		x.AddFeature(&ft)
	}
	return x
}

func safely(what string, f func()) (err error) {
	defer func() {
		if r := recover(); r != nil {
			err = vk.Errf("%s panics: %v", what, r)
		}
	}()
	f()
	return nil
}

func check(c Case) error {
	// harness self-test: the independent reader recovers the abstract record from the harness's own writer
	own := c.Record.Write()
	if back, err := gbk.Read(own); err != nil {
		return vk.Harnessf("independent reader rejects the harness's own layout: %v", err)
	} else if err := gbk.CompareExpected("independent reader on the harness's own layout", back, c.Record.Expected(), nil); err != nil {
		return vk.Harnessf("%v", err)
	}
	var x poly.Sequence
	if c.Kind == "parsed" {
		if err := safely("Parse", func() { x = genbank.Parse([]byte(own)) }); err != nil {
			return err
		}
	} else {
		x = assemble(c)
	}
	want, trees := gbk.ExpectedOf(x)
	// (2) determinism
	var text []byte
	if err := safely("Build", func() { text = genbank.Build(x) }); err != nil {
		return err
	}
	for i := 0; i < 5; i++ {
		if again := genbank.Build(x); string(again) != string(text) {
			return vk.Errf("writing the same record twice gives different text (first difference at byte %d):\n--- first ---\n%s\n--- again ---\n%s", firstDiff(string(text), string(again)), around(string(text), firstDiff(string(text), string(again))), around(string(again), firstDiff(string(text), string(again))))
		}
	}
	// writing leaves the record it was given as it is
	if after, afterTrees := gbk.ExpectedOf(x); compareRoundTrip("the record after Build (the writer must not change its argument)", after, afterTrees, want, trees) != nil {
		return compareRoundTrip("the record after Build (the writer must not change its argument)", after, afterTrees, want, trees)
	}
	// the text handed back must stay what it is when other records are written afterwards
	snapshot := string(text)
	other := x
	other.Meta.Locus.Name = "other" + x.Meta.Locus.Name
	other.Meta.Definition = "another record " + x.Meta.Definition
	other.Sequence = strings.Repeat("tgca", len(x.Sequence)/8)
	other.Features = nil
	_ = safely("Build", func() { genbank.Build(other); genbank.Build(other) })
	if string(text) != snapshot {
		i := firstDiff(string(text), snapshot)
		return vk.Errf("the bytes returned by Build(x) changed when another record was built afterwards (first difference at byte %d of %d):\n--- as returned ---\n%s\n--- now ---\n%s", i, len(snapshot), around(snapshot, i), around(string(text), i))
	}
	// (1) Parse(Build(x)) == x
	var y poly.Sequence
	if err := safely("Parse(Build(x))", func() { y = genbank.Parse(text) }); err != nil {
		return fmt.Errorf("%v\n--- written text ---\n%s", err, clip(string(text)))
	}
	got, gotTrees := gbk.ExpectedOf(y)
	if y.Meta.Locus.SequenceCoding != x.Meta.Locus.SequenceCoding {
		return vk.Errf("Parse(Build(x)): sequence coding %q, was %q", y.Meta.Locus.SequenceCoding, x.Meta.Locus.SequenceCoding)
	}
	if err := compareRoundTrip("Parse(Build(x))", got, gotTrees, want, trees); err != nil {
		return fmt.Errorf("%v\n--- written text ---\n%s", err, clip(string(text)))
	}
	// (4) through a file
	p := filepath.Join(vk.WorkDir(), "x.gbk")
	defer os.Remove(p)
	var z poly.Sequence
	vk.StaleFile(p, 2*len(text)+500)
	if err := safely("Write/Read", func() { vk.AlternateTempDir(func() { genbank.Write(x, p) }); z = genbank.Read(p) }); err != nil {
		return err
	}
	gz, gzTrees := gbk.ExpectedOf(z)
	if err := compareRoundTrip("Read(Write(x))", gz, gzTrees, want, trees); err != nil {
		return err
	}
	// the written file holds one record: the multi-record readers must return exactly that one
	var many, manyParsed []poly.Sequence
	if err := safely("ReadMulti/ParseMulti", func() { many = genbank.ReadMulti(p); manyParsed = genbank.ParseMulti(text) }); err != nil {
		return err
	}
	for _, r := range []struct {
		what string
		recs []poly.Sequence
	}{{"ReadMulti(Write(x))", many}, {"ParseMulti(Build(x))", manyParsed}} {
		if len(r.recs) != 1 {
			return vk.Errf("%s returns %d records, one was written", r.what, len(r.recs))
		}
		gm, gmTrees := gbk.ExpectedOf(r.recs[0])
		if err := compareRoundTrip(r.what, gm, gmTrees, want, trees); err != nil {
			return err
		}
	}
	// a record that has been read is the caller's own: annotating one feature of one copy (a qualifier added to the first
	// feature that has none, else to the first feature) changes that feature of that copy and nothing else - not its
	// sibling features, not the other copy read from the same text - and the copy writes and reads back as annotated
	if len(y.Features) > 0 && len(y.Features) == len(want.Features) {
		k := 0
		for i, f := range y.Features {
			if len(f.Attributes) == 0 {
				k = i
				break
			}
		}
		if y.Features[k].Attributes == nil {
			y.Features[k].Attributes = map[string]string{}
		}
		y.Features[k].Attributes["verif_added"] = "added after reading"
		edited := want
		edited.Features = make([]gbk.ExpectedFeature, len(want.Features))
		for i, f := range want.Features {
			g := f
			g.Attributes = map[string]string{}
			for a, b := range f.Attributes {
				g.Attributes[a] = b
			}
			edited.Features[i] = g
		}
		edited.Features[k].Attributes["verif_added"] = "added after reading"
		gz2, gzTrees2 := gbk.ExpectedOf(z)
		if err := compareRoundTrip(fmt.Sprintf("the record read from the file, after a qualifier was added to feature %d of the record parsed from the same text", k), gz2, gzTrees2, want, trees); err != nil {
			return err
		}
		ge, geTrees := gbk.ExpectedOf(y)
		if err := compareRoundTrip(fmt.Sprintf("the parsed record after a qualifier was added to its feature %d", k), ge, geTrees, edited, trees); err != nil {
			return err
		}
		var y2 poly.Sequence
		if err := safely("Parse(Build(annotated record))", func() { y2 = genbank.Parse(genbank.Build(y)) }); err != nil {
			return err
		}
		g2, g2Trees := gbk.ExpectedOf(y2)
		if err := compareRoundTrip(fmt.Sprintf("Parse(Build(x')) where x' is the parsed record with a qualifier added to feature %d", k), g2, g2Trees, edited, trees); err != nil {
			return err
		}
	}
	// every result so far written into by the caller (qualifier maps, location trees, reference and feature lists): the
	// written text parses again to the record that was written
	gbk.Vandalise(&y)
	gbk.Vandalise(&z)
	var fresh poly.Sequence
	if err := safely("Parse(Build(x)), a second time", func() { fresh = genbank.Parse(text) }); err != nil {
		return err
	}
	gf, gfTrees := gbk.ExpectedOf(fresh)
	if err := compareRoundTrip("Parse(Build(x)), a second time, after the caller had written into the earlier results", gf, gfTrees, want, trees); err != nil {
		return fmt.Errorf("%v\n--- written text ---\n%s", err, clip(string(text)))
	}
	// (3) an independent reader recovers the same record from the written text
	exclude := false
	if !c.NoExclusion && vk.KnownActive(knownWriter) {
		for i, f := range x.Features {
			if f.GbkLocationString == "" && c.Record.Features[i].Loc.HasP3() {
				exclude = true
			}
		}
	}
	if exclude {
		vk.CountExcluded("independent-reader clause skipped: an uncached location with a 3' partial leaf is written as n..m> (K-C03-1 = K-C02-1)")
		return nil
	}
	ind, err := gbk.Read(string(text))
	if err != nil {
		return fmt.Errorf("the written text does not follow the GenBank flat-file layout closely enough for an independent reader: %v\n--- written text ---\n%s", err, clip(string(text)))
	}
	if err := gbk.CompareExpected("independent reader on Build(x)", ind, want, trees); err != nil {
		return fmt.Errorf("%v\n--- written text ---\n%s", err, clip(string(text)))
	}
	return nil
}

// compareRoundTrip: got (read back) against want (what the writer was given); features that had
// no cached location text are compared on the location tree.
func compareRoundTrip(what string, got gbk.Expected, gotTrees []poly.Location, want gbk.Expected, trees []poly.Location) error {
	w := want
	w.Features = nil
	for i, f := range want.Features {
		if i < len(got.Features) && f.Location == "" {
			if !gbk.SameTree(gotTrees[i], trees[i]) {
				return vk.Errf("%s: feature %d (%s) location tree read back as %+v (text %q), the writer was given %+v", what, i, f.Type, gotTrees[i], got.Features[i].Location, trees[i])
			}
			f.Location = got.Features[i].Location
		}
		w.Features = append(w.Features, f)
	}
	fake := poly.Sequence{Sequence: got.Sequence}
	fake.Meta.Locus = got.Locus
	fake.Meta.Definition, fake.Meta.Accession, fake.Meta.Version, fake.Meta.Keywords, fake.Meta.Source, fake.Meta.Organism = got.Definition, got.Accession, got.Version, got.Keywords, got.Source, got.Organism
	fake.Meta.References, fake.Meta.Other = got.References, got.Other
	for _, f := range got.Features {
		fake.Features = append(fake.Features, poly.Feature{Type: f.Type, GbkLocationString: f.Location, Attributes: f.Attributes})
	}
	return gbk.Compare(what, fake, w)
}

func firstDiff(a, b string) int {
	i := 0
	for i < len(a) && i < len(b) && a[i] == b[i] {
		i++
	}
	return i
}

func around(s string, i int) string {
	lo, hi := max(0, i-200), min(len(s), i+200)
	return s[lo:hi]
}

func clip(s string) string {
	if len(s) > 3000 {
		return s[:2200] + fmt.Sprintf("\n…(%d bytes)…\n", len(s)) + s[len(s)-500:]
	}
	return s
}

func nonTrivial(c Case) bool {
	r := c.Record
	if len(r.Extra)+btoi(len(r.DBLink) > 0) >= 2 {
		return true
	}
	for _, f := range r.Features {
		if len(f.Qualifiers) >= 2 {
			return true
		}
	}
	return strings.Count(r.Write(), "\n            ") > 0
}

func btoi(b bool) int {
	if b {
		return 1
	}
	return 0
}

func labels(c Case) []string {
	r := c.Record
	set := map[string]bool{"kind:" + c.Kind: true}
	if len(r.Extra)+btoi(len(r.DBLink) > 0) >= 2 {
		set[">=2 extra keyword blocks"] = true
	}
	for i, f := range r.Features {
		if len(f.Qualifiers) >= 2 {
			set["feature with >=2 qualifiers"] = true
		}
		if c.Kind == "structured" && len(c.Cached) > 0 && !c.Cached[i%len(c.Cached)] {
			set["feature without cached location text"] = true
			if f.Loc.HasP3() {
				set["uncached location with 3' partial"] = true
			}
		}
	}
	for _, ref := range r.References {
		if len(ref.Remark) > 0 {
			set["reference with remark"] = true
		}
	}
	if n := len(r.Seq.String()); n > 10000 {
		set["|seq|>1e4"] = true
	}
	if len(strings.Join(r.Definition, " ")) > 1000 {
		set["metadata text > 1000 characters"] = true
	}
	var l []string
	for k := range set {
		l = append(l, k)
	}
	return l
}

func sample(c Case) any {
	return map[string]any{"kind": c.Kind, "record_as_laid_out_by_the_harness": clip(c.Record.Write()), "cached_location_text": c.Cached}
}

func gen(kind string) func(t *rapid.T) Case {
	return func(t *rapid.T) Case {
		c := Case{Kind: kind, Record: gbk.Draw(t, "r", 100000, 40)}
		if rapid.IntRange(0, 3).Draw(t, "long_definition") == 0 {
			c.Record.Definition = gbk.Words(t, "long_definition", 100, 260) // up to ~2000 characters
		}
		if kind == "structured" {
			c.Cached = rapid.SliceOfN(rapid.Bool(), 1, 4).Draw(t, "cached")
		}
		return c
	}
}

var subParsed = vk.Register(&vk.Sub[Case]{Name: "parsed", Gen: gen("parsed"), Check: check, NonTrivial: nonTrivial, Labels: labels, Sample: sample})
var subStructured = vk.Register(&vk.Sub[Case]{Name: "structured", Gen: gen("structured"), Check: check, NonTrivial: nonTrivial, Labels: labels, Sample: sample})

func TestSub_parsed(t *testing.T)     { vk.RunRapid(t, subParsed) }
func TestSub_structured(t *testing.T) { vk.RunRapid(t, subStructured) }

func TestReplay(t *testing.T) { vk.Replay(t) }

// native coverage-guided fuzzing over the same generator and oracle (thorough tier)
var subFuzz = vk.Register(&vk.Sub[Case]{Name: "structured_fuzz", Gen: gen("structured"), Check: check})

func FuzzSub_structured_fuzz(f *testing.F) { vk.RunFuzz(f, subFuzz) }
