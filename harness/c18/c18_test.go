// C18 — combining codon tables adds or averages usage and keeps the code.
package c18

import (
	"fmt"
	"math"
	"math/big"
	"sort"
	"strings"
	"testing"

	"github.com/TimothyStiles/poly/transform/codon"
	"pgregory.net/rapid"
	"verifharness/internal/ctab"
	"verifharness/internal/vk"
)

type Case struct {
	TA      ctab.Spec `json:"table_a"`
	TB      ctab.Spec `json:"table_b"` // same genetic code as table_a
	Cuts    []float64 `json:"cut_offs"`
	Protein string    `json:"protein"` // residues for the Optimize clause (filtered to those that keep a positive weight)
}

func floorShare(w, total int) int { return 10000 * w / total }

// cutWeight is floor(10000*cut) computed exactly on the float64 value of cut.
func cutWeight(cut float64) int {
	r := new(big.Rat).SetFloat64(cut)
	r.Mul(r, big.NewRat(10000, 1))
	q := new(big.Int).Div(r.Num(), r.Denom()) // Euclidean division = floor for positive denominators
	return int(q.Int64())
}

func sameSet(a, b []string) bool {
	x, y := append([]string{}, a...), append([]string{}, b...)
	sort.Strings(x)
	sort.Strings(y)
	return strings.Join(x, ",") == strings.Join(y, ",")
}

func keepsCode(what string, got ctab.Flat, first ctab.Flat) error {
	if len(got.W) != len(first.W) {
		return vk.Errf("%s holds %d codons, the first table %d", what, len(got.W), len(first.W))
	}
	for c, l := range first.L {
		if got.L[c] != l {
			return vk.Errf("%s assigns %s to %q, the first table to %q", what, c, got.L[c], l)
		}
	}
	if !sameSet(got.Starts, first.Starts) || !sameSet(got.Stops, first.Stops) {
		return vk.Errf("%s has start/stop codons %v / %v, the first table %v / %v", what, got.Starts, got.Stops, first.Starts, first.Stops)
	}
	return nil
}

func check(c Case) error {
	// a table that was re-weighted before (ctab.Spec.Twice) has been combined in that earlier state: what the judged
	// calls return depends on the tables' present weights only
	earlier := func(t codon.Table) {
		defer func() { _ = recover() }()
		_, _ = codon.CompromiseCodonTable(t, t, 0.1)
		_ = codon.AddCodonTable(t, t)
	}
	ta, tb := c.TA.BuildWith(earlier), c.TB.BuildWith(earlier)
	// give the second table start/stop lists of its own (same code, user-edited lists), so that
	// "keeps the first table's start/stop codons" is observable
	tb.StartCodons = append([]string{"NNN"}, tb.StartCodons...)
	tb.StopCodons = append(append([]string{}, tb.StopCodons...), "NNN")
	fa, err := ctab.Flatten(ta)
	if err != nil {
		return vk.Harnessf("table a: %v", err)
	}
	fb, err := ctab.Flatten(tb)
	if err != nil {
		return vk.Harnessf("table b: %v", err)
	}
	for _, l := range fa.Letters() {
		if fa.ClassTotal(l) == 0 || fb.ClassTotal(l) == 0 {
			return vk.Harnessf("generator produced a table with an empty synonym class %q", l)
		}
	}
	// ---- add
	sum := codon.AddCodonTable(ta, tb)
	fs, err := ctab.Flatten(sum)
	if err != nil {
		return vk.Errf("AddCodonTable(%v, %v): %v", c.TA, c.TB, err)
	}
	if err := keepsCode(fmt.Sprintf("AddCodonTable(%v, %v)", c.TA, c.TB), fs, fa); err != nil {
		return err
	}
	for cd := range fa.W {
		if fs.W[cd] != fa.W[cd]+fb.W[cd] {
			return vk.Errf("AddCodonTable(%v, %v): weight of %s = %d, want %d + %d", c.TA, c.TB, cd, fs.W[cd], fa.W[cd], fb.W[cd])
		}
	}
	// the operands are not modified
	if f2, _ := ctab.Flatten(ta); !sameW(f2.W, fa.W) {
		return vk.Errf("AddCodonTable modified its first argument")
	}
	if f2, _ := ctab.Flatten(tb); !sameW(f2.W, fb.W) {
		return vk.Errf("AddCodonTable modified its second argument")
	}
	// ---- compromise
	for _, cut := range c.Cuts {
		res, err := codon.CompromiseCodonTable(ta, tb, cut)
		rev, errRev := codon.CompromiseCodonTable(tb, ta, cut)
		if cut < 0 || cut > 1 || math.IsNaN(cut) {
			if err == nil || errRev == nil {
				return vk.Errf("CompromiseCodonTable accepted the cut-off %v", cut)
			}
			continue
		}
		if err != nil || errRev != nil {
			return vk.Errf("CompromiseCodonTable rejected the cut-off %v: %v / %v", cut, err, errRev)
		}
		fr, ferr := ctab.Flatten(res)
		if ferr != nil {
			return vk.Errf("CompromiseCodonTable(%v, %v, %v): %v", c.TA, c.TB, cut, ferr)
		}
		what := fmt.Sprintf("CompromiseCodonTable(%v, %v, %v)", c.TA, c.TB, cut)
		if err := keepsCode(what, fr, fa); err != nil {
			return err
		}
		frev, ferr := ctab.Flatten(rev)
		if ferr != nil {
			return vk.Errf("CompromiseCodonTable(b, a): %v", ferr)
		}
		if err := keepsCode("CompromiseCodonTable with the tables swapped", frev, fb); err != nil {
			return err
		}
		cw := cutWeight(cut)
		for cd, l := range fa.L {
			s1 := floorShare(fa.W[cd], fa.ClassTotal(l))
			s2 := floorShare(fb.W[cd], fb.ClassTotal(l))
			avg := (s1 + s2) / 2
			got := fr.W[cd]
			if frev.W[cd] != got {
				return vk.Errf("%s is not symmetric: %s has weight %d, with the tables swapped %d", what, cd, got, frev.W[cd])
			}
			// a share within 1 of the cut-off weight may fall on either side (rounding on the 10000 scale) - unless it
			// is the cut-off exactly, as a fraction (all of an amino acid on one codon and a cut-off of 1; a half and
			// 0.5): a share that equals the cut-off is not below it, whatever the rounding. With a cut-off of exactly
			// 0 nothing can be below it, so nothing may be zeroed.
			eq1, eq2 := equalsCut(fa.W[cd], fa.ClassTotal(l), cut), equalsCut(fb.W[cd], fb.ClassTotal(l), cut)
			near1, near2 := cut != 0 && abs(s1-cw) <= 1 && !eq1, cut != 0 && abs(s2-cw) <= 1 && !eq2
			mayBeBelow := (s1 < cw && !eq1) || (s2 < cw && !eq2) || near1 || near2
			mustBeBelow := (s1 < cw && !near1 && !eq1) || (s2 < cw && !near2 && !eq2)
			okZero := got == 0 && (mayBeBelow || avg <= 1)
			okAvg := abs(got-avg) <= 1 && !mustBeBelow
			if !okZero && !okAvg {
				return vk.Errf("%s: %s (%s) has weight %d; usage shares are %d and %d of 10000, cut-off weight %d, mean %d", what, cd, l, got, s1, s2, cw, avg)
			}
		}
		// ---- optimise with the compromise table
		var protein strings.Builder
		for i := 0; i < len(c.Protein); i++ {
			l := string(c.Protein[i])
			if _, ok := fr.Classes[l]; ok && fr.ClassTotal(l) > 0 {
				protein.WriteString(l)
			}
		}
		if p := protein.String(); p != "" {
			dna, err := codon.Optimize(p, res)
			if err != nil {
				return vk.Errf("Optimize(%q) with %s: %v", p, what, err)
			}
			if len(dna) != 3*len(p) {
				return vk.Errf("Optimize(%q) with %s returned %d letters", p, what, len(dna))
			}
			for i := 0; i < len(p); i++ {
				cd := dna[3*i : 3*i+3]
				l := string(p[i])
				if fa.L[cd] != l {
					return vk.Errf("Optimize with %s encodes %q as %s, which is %q in the genetic code", what, l, cd, fa.L[cd])
				}
				s1 := floorShare(fa.W[cd], fa.ClassTotal(l))
				s2 := floorShare(fb.W[cd], fb.ClassTotal(l))
				if s1 < cw-1 || s2 < cw-1 {
					return vk.Errf("Optimize with %s used %s for %q: its usage shares are %d and %d of 10000, below the cut-off weight %d", what, cd, l, s1, s2, cw)
				}
			}
			back, err := codon.Translate(dna, res)
			if err != nil || back != p {
				return vk.Errf("Optimize with %s: %q translates back to %q (err %v)", what, p, back, err)
			}
		}
	}
	return nil
}

// equalsCut: the usage share w/total is the cut-off exactly (as fractions; cut is taken at its float64 value).
func equalsCut(w, total int, cut float64) bool {
	if total <= 0 {
		return false
	}
	return new(big.Rat).SetFrac64(int64(w), int64(total)).Cmp(new(big.Rat).SetFloat64(cut)) == 0
}

func abs(x int) int {
	if x < 0 {
		return -x
	}
	return x
}

func sameW(a, b map[string]int) bool {
	for k, v := range a {
		if b[k] != v {
			return false
		}
	}
	return len(a) == len(b)
}

// zeroedAndKept: some codon zeroed by a cut-off and some not.
func nonTrivial(c Case) bool {
	ta, tb := c.TA.Build(), c.TB.Build()
	fa, _ := ctab.Flatten(ta)
	fb, _ := ctab.Flatten(tb)
	for _, cut := range c.Cuts {
		if cut < 0 || cut > 1 {
			continue
		}
		cw := cutWeight(cut)
		zeroed, kept := false, false
		for cd, l := range fa.L {
			ta, tb := fa.ClassTotal(l), fb.ClassTotal(l)
			if ta == 0 || tb == 0 {
				return false
			}
			if floorShare(fa.W[cd], ta) < cw || floorShare(fb.W[cd], tb) < cw {
				zeroed = true
			} else {
				kept = true
			}
		}
		if zeroed && kept {
			return true
		}
	}
	return false
}

func labels(c Case) []string {
	l := []string{fmt.Sprintf("code:%d", c.TA.ID)}
	if c.TA.Reweight && c.TB.Reweight {
		l = append(l, "both re-weighted")
	}
	for _, cut := range c.Cuts {
		switch {
		case cut < 0 || cut > 1:
			l = append(l, "cut outside [0,1]")
		case cut == 0 || cut == 1:
			l = append(l, "cut at 0 or 1")
		}
	}
	return l
}

func sample(c Case) any {
	return map[string]any{"table_a": c.TA.String(), "table_b": c.TB.String(), "cut_offs": c.Cuts, "protein": c.Protein}
}

var sub = vk.Register(&vk.Sub[Case]{Name: "combine", Gen: gen, Check: check, NonTrivial: nonTrivial, Labels: labels, Sample: sample})

func gen(t *rapid.T) Case {
	c := Case{}
	c.TA = ctab.DrawSpec(t, "a", true, vk.Pick(3000, 30000))
	c.TB = ctab.DrawSpecFor(t, "b", true, vk.Pick(3000, 30000), c.TA.ID) // same genetic code
	if c.TA.Reweight && rapid.IntRange(0, 5).Draw(t, "b_from_a") == 0 {
		// the second organism uses the same codons as the first, with other frequencies (the first's coding sequence
		// followed by a part of itself): codons the first never uses the second never uses either, so an amino acid
		// written with one codon only in one table is written with that codon only in both
		a := c.TA.Seq.String()
		cut := 3 * rapid.IntRange(0, len(a)/3).Draw(t, "b_repeats_a_up_to")
		c.TB = ctab.Spec{ID: c.TA.ID, Reweight: true, Seq: vk.SeqSpec{Lit: a + a[:cut]}, Order: c.TB.Order}
	}
	// cut-offs: fixed landmarks, random ones, and values at / next to realised shares
	land := []float64{-1, -1e-9, 0, 1e-9, 0.05, 0.1, 0.25, 0.5, 1 - 1e-9, 1, 1 + 1e-9, 2}
	n := rapid.IntRange(3, 6).Draw(t, "n_cuts")
	fa, _ := ctab.Flatten(c.TA.Build())
	codons := make([]string, 0, 64)
	for cd := range fa.W {
		codons = append(codons, cd)
	}
	sort.Strings(codons)
	for i := 0; i < n; i++ {
		switch rapid.IntRange(0, 2).Draw(t, "cut_kind") {
		case 0:
			c.Cuts = append(c.Cuts, rapid.SampledFrom(land).Draw(t, "cut_landmark"))
		case 1:
			c.Cuts = append(c.Cuts, rapid.Float64Range(-1, 2).Draw(t, "cut_random"))
		default:
			cd := rapid.SampledFrom(codons).Draw(t, "cut_at_share_of")
			share := float64(floorShare(fa.W[cd], max(1, fa.ClassTotal(fa.L[cd])))) / 10000
			c.Cuts = append(c.Cuts, share+rapid.SampledFrom([]float64{0, 1e-4, -1e-4, 2e-4, -2e-4}).Draw(t, "cut_offset"))
		}
	}
	letters := fa.Letters()
	pn := rapid.IntRange(0, 60).Draw(t, "protein_len")
	var p strings.Builder
	for i := 0; i < pn; i++ {
		p.WriteString(rapid.SampledFrom(letters).Draw(t, "residue"))
	}
	c.Protein = p.String()
	return c
}

func TestSub_combine(t *testing.T) { vk.RunRapid(t, sub) }

func TestReplay(t *testing.T) { vk.Replay(t) }

// native coverage-guided fuzzing over the same generator and oracle (thorough tier)
var subNativeFuzz = vk.Register(&vk.Sub[Case]{Name: "combine_fuzz", Gen: gen, Check: check})

func FuzzSub_combine_fuzz(f *testing.F) { vk.RunFuzz(f, subNativeFuzz) }
