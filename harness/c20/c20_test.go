// C20 — Uniprot streaming delivers every entry once, in order, and terminates.
package c20

import (
	"bytes"
	"compress/gzip"
	"encoding/xml"
	"fmt"
	"io"
	"os"
	"path/filepath"
	"runtime"
	"sort"
	"strings"
	"testing"
	"time"

	"github.com/TimothyStiles/poly/io/uniprot"
	"pgregory.net/rapid"
	"verifharness/internal/vk"
)

type EntrySpec struct {
	Accessions []string `json:"accessions"`
	Names      []string `json:"names"`
	Protein    string   `json:"protein,omitempty"`
	Gene       string   `json:"gene,omitempty"`
	Organism   string   `json:"organism,omitempty"`
	Comment    string   `json:"comment,omitempty"`
	Sequence   string   `json:"sequence"`
	// Extras: indices into the dictionary of real-world child elements (realworld_test.go), written in schema order
	// between <organism> and <sequence>; Precursor: the sequence element carries precursor="true" fragment="single"
	Extras    []int `json:"extras,omitempty"`
	Precursor bool  `json:"precursor,omitempty"`
	// Spelling: other lexical forms the XML schema allows for the same values. Bit 0: booleans as 1 / 0 (precursor,
	// organismsDiffer); bit 1: the sequence element's attributes in single quotes; bit 2: its integers with a leading
	// zero or plus sign; bit 3: white space around '=' and before '>'; bit 4: precursor="false" written out
	Spelling int `json:"spelling,omitempty"`
	// valid calendar dates (YYYY-MM-DD) for the entry's created / modified attributes and the sequence's modified
	// attribute; empty = 2009-05-05
	Created, Modified, SeqModified string `json:",omitempty"`
}

func dateOr(d string) string {
	if d == "" {
		return "2009-05-05"
	}
	return d
}

// drawDate draws a valid calendar date; one in three is an edge of the calendar (leap days including the century
// years, month and year ends, the earliest and latest years of the data bank).
func drawDate(t *rapid.T, name string) string {
	if rapid.IntRange(0, 2).Draw(t, name+"_edge") == 0 {
		return rapid.SampledFrom([]string{"2000-02-29", "2004-02-29", "1996-02-29", "2024-02-29", "2400-02-29", "1600-02-29", "2020-02-28", "2021-02-28",
			"1999-12-31", "2000-01-01", "1986-07-21", "2038-01-19", "2038-01-20", "1970-01-01", "1969-12-31", "2019-03-31", "2019-04-30", "2019-10-31", "2019-11-30",
			"2100-02-28", "0001-01-01", "9999-12-31"}).Draw(t, name+"_edge_date")
	}
	y := rapid.IntRange(1986, 2030).Draw(t, name+"_year")
	m := rapid.IntRange(1, 12).Draw(t, name+"_month")
	days := []int{31, 28, 31, 30, 31, 30, 31, 31, 30, 31, 30, 31}[m-1]
	if m == 2 && (y%4 == 0 && (y%100 != 0 || y%400 == 0)) {
		days = 29
	}
	return fmt.Sprintf("%04d-%02d-%02d", y, m, rapid.IntRange(1, days).Draw(t, name+"_day"))
}

type Damage struct {
	Kind string `json:"kind"` // none | truncate | delete_lt | delete_gt | rename_close | stray_amp | unclosed_quote | invalid_byte | bad_number | bad_date | undeclared_entity | truncate_gzip
	At   int    `json:"at"`   // truncate: byte offset; others: index of the occurrence to damage (mod count)
}

type Consumer struct {
	Kind     string `json:"kind"` // sequential (drain entries, then errors: the documented usage) | concurrent
	EntryCap int    `json:"entry_capacity"`
	ErrCap   int    `json:"error_capacity"`
	Yields   []int  `json:"yields,omitempty"`
	Procs    int    `json:"gomaxprocs,omitempty"`
	// StallMs: the consumer does nothing for this long before it takes the second value (it writes the first entry to
	// a database, say): the stream is delivered at whatever pace it is taken
	StallMs int `json:"stall_ms,omitempty"`
}

type Case struct {
	Entries   []EntrySpec `json:"entries"`
	Copyright bool        `json:"copyright"`
	Pretty    bool        `json:"pretty"` // indentation and line breaks between elements
	Damage    Damage      `json:"damage"`
	Consumer  Consumer    `json:"consumer"`
	ViaGzip   bool        `json:"via_gzip_read,omitempty"` // through uniprot.Read on a gzip file
}

func esc(s string) string {
	var b bytes.Buffer
	_ = xml.EscapeText(&b, []byte(s))
	return b.String()
}

// document writes the Uniprot XML and returns it with the offset just past each </entry>
// and the offset just past the root's end tag.
func document(c Case) (doc []byte, entryEnds []int, rootEnd int) {
	var b bytes.Buffer
	nl, in1, in2 := "", "", ""
	if c.Pretty {
		nl, in1, in2 = "\n", "  ", "    "
	}
	b.WriteString(`<?xml version="1.0" encoding="UTF-8"?>` + "\n")
	b.WriteString(`<uniprot xmlns="http://uniprot.org/uniprot" xmlns:xsi="http://www.w3.org/2001/XMLSchema-instance" xsi:schemaLocation="http://uniprot.org/uniprot http://www.uniprot.org/docs/uniprot.xsd">` + nl)
	for i, e := range c.Entries {
		modified := e.Modified
		if modified == "" {
			modified = "2020-08-12"
		}
		fmt.Fprintf(&b, `<entry dataset="Swiss-Prot" created="%s" modified="%s" version="%d">%s`, dateOr(e.Created), modified, i+1, nl)
		for _, a := range e.Accessions {
			b.WriteString(in1 + "<accession>" + esc(a) + "</accession>" + nl)
		}
		for _, n := range e.Names {
			b.WriteString(in1 + "<name>" + esc(n) + "</name>" + nl)
		}
		if e.Protein != "" {
			b.WriteString(in1 + "<protein>" + nl + in2 + "<recommendedName>" + nl + in2 + "<fullName>" + esc(e.Protein) + "</fullName>" + nl + in2 + "</recommendedName>" + nl + in1 + "</protein>" + nl)
		}
		if e.Gene != "" {
			b.WriteString(in1 + "<gene>" + nl + in2 + `<name type="primary">` + esc(e.Gene) + "</name>" + nl + in1 + "</gene>" + nl)
		}
		if e.Organism != "" {
			b.WriteString(in1 + "<organism>" + nl + in2 + `<name type="scientific">` + esc(e.Organism) + "</name>" + nl + in2 + `<dbReference type="NCBI Taxonomy" id="561445"/>` + nl + in1 + "</organism>" + nl)
		}
		var children []extra
		if e.Comment != "" {
			children = append(children, extra{4, `<comment type="function">` + nl + in2 + "<text>" + esc(e.Comment) + "</text>" + nl + in1 + "</comment>"})
		}
		for _, k := range e.Extras {
			children = append(children, extras[((k%len(extras))+len(extras))%len(extras)])
		}
		sort.SliceStable(children, func(i, j int) bool { return children[i].rank < children[j].rank })
		yes, no := "true", "false"
		if e.Spelling&1 != 0 {
			yes, no = "1", "0"
		}
		for _, ch := range children {
			x := ch.xml
			if e.Spelling&1 != 0 {
				x = strings.ReplaceAll(strings.ReplaceAll(x, "<organismsDiffer>true<", "<organismsDiffer>1<"), "<organismsDiffer>false<", "<organismsDiffer>0<")
			}
			b.WriteString(in1 + x + nl)
		}
		more := ""
		if e.Precursor {
			more = ` precursor="` + yes + `" fragment="single"`
		} else if e.Spelling&16 != 0 {
			more = ` precursor="` + no + `"`
		}
		intFmt := "%d"
		if e.Spelling&4 != 0 {
			intFmt = []string{"0%d", "+%d"}[len(e.Sequence)%2]
		}
		el := fmt.Sprintf(`<sequence length="`+intFmt+`" mass="`+intFmt+`" checksum="C4F2A0B1D3E5F607" modified="%s" version="1"%s>`, len(e.Sequence), 110*len(e.Sequence), dateOr(e.SeqModified), more)
		if e.Spelling&2 != 0 {
			el = strings.ReplaceAll(el, `"`, "'")
		}
		if e.Spelling&8 != 0 {
			el = strings.ReplaceAll(strings.ReplaceAll(el, "=", " = "), ">", "\n >")
		}
		b.WriteString(in1 + el + e.Sequence + "</sequence>" + nl)
		b.WriteString("</entry>")
		entryEnds = append(entryEnds, b.Len())
		b.WriteString(nl)
	}
	if c.Copyright {
		b.WriteString("<copyright>" + nl + "Copyrighted by the UniProt Consortium, see https://www.uniprot.org/terms Distributed under the Creative Commons Attribution (CC BY 4.0) License" + nl + "</copyright>" + nl)
	}
	b.WriteString("</uniprot>")
	rootEnd = b.Len()
	b.WriteString("\n")
	return b.Bytes(), entryEnds, rootEnd
}

func occurrences(doc []byte, pred func(i int) bool) []int {
	var out []int
	for i := range doc {
		if pred(i) {
			out = append(out, i)
		}
	}
	return out
}

// applyDamage returns the damaged bytes and the offset of the damage in the original document.
func applyDamage(doc []byte, rootEnd int, d Damage) (out []byte, at int, damaged bool) {
	declEnd := bytes.Index(doc, []byte("?>")) + 2
	pickFrom := func(pos []int) (int, bool) {
		if len(pos) == 0 {
			return 0, false
		}
		return pos[((d.At%len(pos))+len(pos))%len(pos)], true
	}
	inRoot := func(i int) bool { return i > declEnd && i < rootEnd }
	switch d.Kind {
	case "truncate":
		t := ((d.At % (len(doc) + 1)) + len(doc) + 1) % (len(doc) + 1)
		return doc[:t], t, t < rootEnd
	case "delete_lt", "delete_gt":
		ch := byte('<')
		if d.Kind == "delete_gt" {
			ch = '>'
		}
		p, ok := pickFrom(occurrences(doc, func(i int) bool { return doc[i] == ch && inRoot(i) }))
		if !ok {
			return doc, 0, false
		}
		return append(append([]byte{}, doc[:p]...), doc[p+1:]...), p, true
	case "rename_close":
		p, ok := pickFrom(occurrences(doc, func(i int) bool { return inRoot(i) && doc[i] == '<' && i+2 < len(doc) && doc[i+1] == '/' }))
		if !ok {
			return doc, 0, false
		}
		o := append([]byte{}, doc...)
		if o[p+2] == 'q' {
			o[p+2] = 'z'
		} else {
			o[p+2] = 'q'
		}
		return o, p, true
	case "stray_amp":
		p, ok := pickFrom(occurrences(doc, func(i int) bool { return inRoot(i) && doc[i] == '>' && i+1 < rootEnd && doc[i+1] != '<' }))
		if !ok {
			return doc, 0, false
		}
		o := append(append(append([]byte{}, doc[:p+1]...), []byte("& ")...), doc[p+1:]...)
		return o, p + 1, true
	case "undeclared_entity": // a reference to an entity XML does not declare (HTML knows it) in character data
		p, ok := pickFrom(occurrences(doc, func(i int) bool { return inRoot(i) && doc[i] == '>' && i+1 < rootEnd && doc[i+1] != '<' }))
		if !ok {
			return doc, 0, false
		}
		names := []string{"&nbsp;", "&yen;", "&eta;", "&psi;", "&reg;", "&alpha;", "&copy;", "&eacute;"}
		ent := names[((d.At/7)%len(names)+len(names))%len(names)]
		o := append(append(append([]byte{}, doc[:p+1]...), []byte(ent)...), doc[p+1:]...)
		return o, p + 1, true
	case "unclosed_quote":
		p, ok := pickFrom(occurrences(doc, func(i int) bool {
			return inRoot(i) && doc[i] == '"' && i+1 < len(doc) && (doc[i+1] == ' ' || doc[i+1] == '>' || doc[i+1] == '/')
		}))
		if !ok {
			return doc, 0, false
		}
		return append(append([]byte{}, doc[:p]...), doc[p+1:]...), p, true
	case "bad_number": // a digit of a numeric attribute (length, mass, version) becomes the letter O: still well-formed XML
		p, ok := pickFrom(occurrences(doc, func(i int) bool {
			if !inRoot(i) || doc[i] < '0' || doc[i] > '9' {
				return false
			}
			q := bytes.LastIndexByte(doc[:i], '"')
			for _, attr := range []string{` length="`, ` mass="`, ` version="`} {
				if q+1 >= len(attr) && string(doc[q+1-len(attr):q+1]) == attr && bytes.IndexByte(doc[q+1:i], ' ') < 0 {
					return true
				}
			}
			return false
		}))
		if !ok {
			return doc, 0, false
		}
		o := append([]byte{}, doc...)
		o[p] = 'O'
		return o, p, true
	case "bad_date": // the tens digit of the day of a created / modified date becomes 4 (2019-12-11 -> 2019-12-41): still well-formed XML
		p, ok := pickFrom(occurrences(doc, func(i int) bool {
			if !inRoot(i) || doc[i] < '0' || doc[i] > '9' {
				return false
			}
			q := bytes.LastIndexByte(doc[:i], '"')
			if i-q != 9 { // "YYYY-MM-D: the ninth character after the quote
				return false
			}
			for _, attr := range []string{` created="`, ` modified="`} {
				if q+1 >= len(attr) && string(doc[q+1-len(attr):q+1]) == attr {
					return true
				}
			}
			return false
		}))
		if !ok {
			return doc, 0, false
		}
		o := append([]byte{}, doc...)
		o[p] = '4'
		return o, p, true
	case "invalid_byte":
		pos := occurrences(doc, inRoot)
		p, ok := pickFrom(pos)
		if !ok {
			return doc, 0, false
		}
		o := append(append(append([]byte{}, doc[:p]...), 0x00), doc[p:]...)
		return o, p, true
	}
	return doc, len(doc), false
}

// judge: what the standard library's tokenizer says about the bytes (a cross-check of the
// harness's belief that the damage makes the document malformed).
func judgeMalformed(b []byte) bool {
	d := xml.NewDecoder(bytes.NewReader(b))
	for {
		_, err := d.RawToken()
		if err == io.EOF {
			break
		}
		if err != nil {
			return true
		}
	}
	// RawToken does not match tags; Token does
	d = xml.NewDecoder(bytes.NewReader(b))
	for {
		_, err := d.Token()
		if err == io.EOF {
			return false
		}
		if err != nil {
			return true
		}
	}
}

type outcome struct {
	entries []uniprot.Entry
	errs    []error
	openErr error
}

const deadline = 20 * time.Second

// consume runs the parser and the consumer; ok=false means the channels were not both closed in time.
// keep takes what is judged out of a delivered entry (accessions, names, sequence text and length, copied) and then
// uses the entry as its owner may: an alias appended to its names, an accession appended, the first of each
// overwritten. An entry belongs to the consumer who received it; the entries still to come are not his to change.
func keep(e uniprot.Entry) uniprot.Entry {
	k := uniprot.Entry{Accession: append([]string{}, e.Accession...), Name: append([]string{}, e.Name...)}
	k.Sequence.Value, k.Sequence.Length = e.Sequence.Value, e.Sequence.Length
	e.Name = append(e.Name, "alias-added-by-the-consumer")
	e.Accession = append(e.Accession, "X00000")
	if len(e.Name) > 0 {
		e.Name[0] = "renamed-by-the-consumer"
	}
	if len(e.Accession) > 0 {
		e.Accession[0] = "Y00000"
	}
	return k
}

func consume(c Case, data []byte) (o outcome, problem error) {
	old := runtime.GOMAXPROCS(0)
	if c.Consumer.Procs > 0 {
		runtime.GOMAXPROCS(c.Consumer.Procs)
	}
	defer runtime.GOMAXPROCS(old)
	var entries chan uniprot.Entry
	var errs chan error
	parserPanic := make(chan any, 1)
	if c.ViaGzip {
		p := filepath.Join(vk.WorkDir(), "u.xml.gz")
		if err := os.WriteFile(p, data, 0o644); err != nil {
			return o, vk.Harnessf("write %s: %v", p, err)
		}
		defer os.Remove(p)
		var err error
		entries, errs, err = uniprot.Read(p)
		if err != nil {
			o.openErr = err
			return o, nil
		}
	} else {
		entries = make(chan uniprot.Entry, c.Consumer.EntryCap)
		errs = make(chan error, c.Consumer.ErrCap)
		go func() {
			defer func() {
				if r := recover(); r != nil {
					parserPanic <- r
				}
			}()
			uniprot.Parse(bytes.NewReader(data), entries, errs)
		}()
	}
	deadline := deadline + time.Duration(c.Consumer.StallMs)*time.Millisecond
	timeout, releaseTimeout := vk.AfterStop(deadline)
	defer releaseTimeout()
	yield := func(i int) {
		if i == 1 && c.Consumer.StallMs > 0 {
			time.Sleep(time.Duration(c.Consumer.StallMs) * time.Millisecond)
		}
		if n := len(c.Consumer.Yields); n > 0 {
			for y := 0; y < c.Consumer.Yields[i%n]; y++ {
				runtime.Gosched()
			}
		}
	}
	stuck := func(what string) error {
		return vk.Errf("%s consumer (entry capacity %d, error capacity %d): %s within %v after %d entries and %d errors", c.Consumer.Kind, cap(entries), cap(errs), what, deadline, len(o.entries), len(o.errs))
	}
	if c.Consumer.Kind == "sequential" {
		for i := 0; ; i++ {
			yield(i)
			select {
			case e, ok := <-entries:
				if !ok {
					goto entriesDone
				}
				o.entries = append(o.entries, keep(e))
			case r := <-parserPanic:
				return o, vk.Errf("uniprot.Parse panicked: %v", r)
			case <-timeout:
				return o, stuck("the entry channel was not closed")
			}
		}
	entriesDone:
		for {
			select {
			case e, ok := <-errs:
				if !ok {
					return o, nil
				}
				o.errs = append(o.errs, e)
			case r := <-parserPanic:
				return o, vk.Errf("uniprot.Parse panicked: %v", r)
			case <-timeout:
				return o, stuck("the error channel was not closed")
			}
		}
	}
	// concurrent: both channels drained as values arrive
	ec, rc := entries, errs
	for i := 0; ec != nil || rc != nil; i++ {
		yield(i)
		select {
		case e, ok := <-ec:
			if !ok {
				ec = nil
				continue
			}
			o.entries = append(o.entries, keep(e))
		case e, ok := <-rc:
			if !ok {
				rc = nil
				continue
			}
			o.errs = append(o.errs, e)
			if len(o.errs) > 100000 {
				return o, vk.Errf("concurrent consumer: more than 100000 errors received for one stream (the parser keeps re-sending an error instead of terminating)")
			}
		case r := <-parserPanic:
			return o, vk.Errf("uniprot.Parse panicked: %v", r)
		case <-timeout:
			return o, stuck("both channels were not closed")
		}
	}
	return o, nil
}

func sameEntry(got uniprot.Entry, want EntrySpec) string {
	if strings.Join(got.Accession, "\x00") != strings.Join(want.Accessions, "\x00") {
		return fmt.Sprintf("accessions %q, written %q", got.Accession, want.Accessions)
	}
	if strings.Join(got.Name, "\x00") != strings.Join(want.Names, "\x00") {
		return fmt.Sprintf("names %q, written %q", got.Name, want.Names)
	}
	if got.Sequence.Value != want.Sequence {
		return fmt.Sprintf("sequence %q, written %q", got.Sequence.Value, want.Sequence)
	}
	if got.Sequence.Length != len(want.Sequence) {
		return fmt.Sprintf("sequence length attribute %d, written %d", got.Sequence.Length, len(want.Sequence))
	}
	return ""
}

func check(c Case) error {
	doc, entryEnds, rootEnd := document(c)
	data, at, damaged := applyDamage(doc, rootEnd, c.Damage)
	mustDeliver := len(c.Entries)
	if damaged {
		mustDeliver = 0
		for _, e := range entryEnds {
			if e <= at {
				mustDeliver++
			}
		}
	}
	feed := data
	if c.ViaGzip {
		feed = vk.Gzip(data) // one of six valid gzip forms, by content
		if c.Damage.Kind == "truncate_gzip" {
			feed = vk.GzipForm(data, 0) // a single member: every proper prefix of it is a damaged stream
			t := ((c.Damage.At % len(feed)) + len(feed)) % len(feed)
			feed = feed[:t]
			damaged, mustDeliver = true, 0 // how much of the text survives a truncated deflate stream is not known
		}
		if c.Damage.Kind == "corrupt_gzip" {
			// one bit of the compressed file flipped - in its header, its deflate data or its trailer (check sum, length).
			// What the decompressor makes of it is not known: the same text and an error at the end, other text, an error
			// at once, or (a flip in the header's time stamp) nothing at all. Judged: the parser terminates with both
			// channels closed, and if it reports no error it has delivered every entry.
			feed = append([]byte{}, vk.GzipForm(data, 0)...)
			t := ((c.Damage.At % len(feed)) + len(feed)) % len(feed)
			if c.Damage.At%3 == 0 { // the trailer is eight bytes of a file of thousands: aimed at in one case in three
				t = len(feed) - 1 - (c.Damage.At/3)%8
			}
			feed[t] ^= 1 << (uint(c.Damage.At/24) % 8)
			damaged, mustDeliver = true, 0
		}
	}
	lenient := false
	if damaged && c.Damage.Kind == "corrupt_gzip" {
		lenient = true
	} else if damaged && (c.Damage.Kind == "bad_number" || c.Damage.Kind == "bad_date") {
		// The text is well-formed XML whose structure is intact; one numeric attribute does not hold a number.
		// A parser may take that as damage (then: the entries before it, and at least one error) or read the
		// attribute leniently (then: all k entries and no error). Fewer than k entries without an error is neither.
		lenient = true
	} else if damaged && c.Damage.Kind != "truncate_gzip" && c.Damage.Kind != "corrupt_gzip" && !judgeMalformed(data) {
		vk.Count("damage left the document well-formed by the standard tokenizer (error clause skipped)", 1)
		damaged = false
		mustDeliver = 0
	}
	o, problem := consume(c, feed)
	if problem != nil {
		return vk.Errf("%v [damage %s at %d of %d bytes, %d entries written]", problem, c.Damage.Kind, at, len(doc), len(c.Entries))
	}
	if o.openErr != nil {
		if !damaged {
			return vk.Errf("uniprot.Read failed on a well-formed gzip file: %v", o.openErr)
		}
		return nil // the single error the documentation promises for a file that cannot be opened as gzip
	}
	what := fmt.Sprintf("damage %s at byte %d of %d", c.Damage.Kind, at, len(doc))
	if !damaged && c.Damage.Kind == "none" {
		what = "well-formed document"
		if len(o.errs) != 0 {
			return vk.Errf("%s with %d entries: %d errors reported, first: %v", what, len(c.Entries), len(o.errs), o.errs[0])
		}
		if len(o.entries) != len(c.Entries) {
			return vk.Errf("%s: %d entries delivered, %d written", what, len(o.entries), len(c.Entries))
		}
	}
	truncation := c.Damage.Kind == "truncate" || c.Damage.Kind == "truncate_gzip" || c.Damage.Kind == "none"
	if truncation && len(o.entries) > len(c.Entries) {
		return vk.Errf("%s: %d entries delivered, only %d written", what, len(o.entries), len(c.Entries))
	}
	if len(o.entries) < mustDeliver {
		return vk.Errf("%s: %d entries end before the damage but only %d were delivered", what, mustDeliver, len(o.entries))
	}
	for i, e := range o.entries {
		if i >= len(c.Entries) {
			break
		}
		diff := sameEntry(e, c.Entries[i])
		if diff == "" {
			continue
		}
		// entries that end before the damage are judged; so is everything in an undamaged or merely truncated
		// stream except the last delivered entry, which may be the partially decoded one holding the cut.
		// What a parser makes of the text after a structural fault is not judged.
		if i < mustDeliver || (truncation && i < len(o.entries)-1) || (!damaged && c.Damage.Kind == "none") {
			return vk.Errf("%s: delivered entry %d has %s", what, i, diff)
		}
	}
	// the entries that were found as written are kept by the consumer while other streams are parsed (vk.Hold)
	{
		var kept []uniprot.Entry
		var specs []EntrySpec
		for i, e := range o.entries {
			if i < len(c.Entries) && sameEntry(e, c.Entries[i]) == "" {
				kept, specs = append(kept, e), append(specs, c.Entries[i])
			}
		}
		if len(kept) > 0 {
			vk.Hold(fmt.Sprintf("%d entries delivered by the Uniprot parser", len(kept)), func() error {
				for i := range kept {
					if diff := sameEntry(kept[i], specs[i]); diff != "" {
						return vk.Errf("entry %d now has %s", i, diff)
					}
				}
				return nil
			})
		}
	}
	// a damaged document read a second time in the same process, through the other route (the file route
	// through gzip if the first reading was from memory, and the other way round): the same document gets
	// the same verdict - as many entries, and an error reported or not
	if damaged && c.Damage.Kind != "truncate_gzip" && c.Damage.Kind != "corrupt_gzip" {
		second := c
		second.ViaGzip = !c.ViaGzip
		feed2 := data
		if second.ViaGzip {
			feed2 = vk.Gzip(data)
		}
		o2, problem := consume(second, feed2)
		if problem != nil {
			return vk.Errf("second reading: %v [%s]", problem, what)
		}
		if o2.openErr == nil && (len(o2.entries) != len(o.entries) || (len(o2.errs) == 0) != (len(o.errs) == 0)) {
			return vk.Errf("%s: the first reading (gzip %v) delivered %d entries and %d errors, the second reading of the same bytes (gzip %v) %d entries and %d errors", what, c.ViaGzip, len(o.entries), len(o.errs), second.ViaGzip, len(o2.entries), len(o2.errs))
		}
	}
	if lenient {
		if len(o.errs) == 0 && len(o.entries) != len(c.Entries) {
			return vk.Errf("%s (an attribute does not hold what its type demands): %d of %d entries delivered and no error reported", what, len(o.entries), len(c.Entries))
		}
		return nil
	}
	if damaged && len(o.errs) == 0 {
		return vk.Errf("%s: the stream is malformed but no error was reported (%d entries delivered)", what, len(o.entries))
	}
	return nil
}

func nonTrivial(c Case) bool {
	if c.Damage.Kind == "none" {
		return len(c.Entries) >= 2
	}
	doc, entryEnds, rootEnd := document(c)
	_, at, damaged := applyDamage(doc, rootEnd, c.Damage)
	if c.Damage.Kind == "truncate_gzip" || c.Damage.Kind == "corrupt_gzip" {
		return len(c.Entries) >= 1
	}
	return damaged && len(entryEnds) > 0 && entryEnds[0] <= at
}

func labels(c Case) []string {
	l := []string{"damage:" + c.Damage.Kind, "consumer:" + c.Consumer.Kind}
	switch n := len(c.Entries); {
	case n == 0:
		l = append(l, "entries:0")
	case n <= 5:
		l = append(l, "entries:1-5")
	default:
		l = append(l, "entries:>5")
	}
	if c.ViaGzip {
		l = append(l, "via Read (gzip)")
	}
	if c.Consumer.EntryCap == 0 {
		l = append(l, "unbuffered entry channel")
	}
	if c.Consumer.EntryCap < len(c.Entries) {
		l = append(l, "entry capacity < entries")
	}
	for _, e := range c.Entries {
		if len(e.Extras) > 0 {
			l = append(l, "has an entry annotated with real-world child elements")
			break
		}
	}
	return l
}

func sample(c Case) any {
	doc, _, _ := document(c)
	s := string(doc)
	if len(s) > 700 {
		s = s[:500] + fmt.Sprintf("…(%d bytes)…", len(s)) + s[len(s)-150:]
	}
	return map[string]any{"document": s, "entries": len(c.Entries), "damage": c.Damage, "consumer": c.Consumer, "via_gzip_read": c.ViaGzip}
}

var textGen = rapid.OneOf(
	rapid.StringMatching(`[A-Za-z0-9 ,.()/-]{1,40}`),
	rapid.StringMatching(`[ -~]{1,30}`), // includes & < > " ' which the writer escapes
	rapid.StringOfN(rapid.RuneFrom([]rune("αβγ µ→é ABC")), 1, 12, -1),
)

func drawEntry(t *rapid.T) EntrySpec {
	e := EntrySpec{}
	na := rapid.IntRange(1, 3).Draw(t, "n_accessions")
	for i := 0; i < na; i++ {
		e.Accessions = append(e.Accessions, rapid.StringMatching(`[OPQ][0-9][A-Z0-9]{3}[0-9]`).Draw(t, "accession"))
	}
	nn := rapid.IntRange(1, 2).Draw(t, "n_names")
	for i := 0; i < nn; i++ {
		e.Names = append(e.Names, rapid.OneOf(rapid.StringMatching(`[A-Z0-9]{1,5}_[A-Z0-9]{1,5}`), textGen).Draw(t, "name"))
	}
	if rapid.Bool().Draw(t, "has_protein") {
		e.Protein = strings.TrimSpace(textGen.Draw(t, "protein"))
	}
	if rapid.Bool().Draw(t, "has_gene") {
		e.Gene = strings.TrimSpace(textGen.Draw(t, "gene"))
	}
	if rapid.Bool().Draw(t, "has_organism") {
		e.Organism = strings.TrimSpace(textGen.Draw(t, "organism"))
	}
	if rapid.IntRange(0, 3).Draw(t, "has_comment") == 0 {
		e.Comment = strings.TrimSpace(textGen.Draw(t, "comment"))
	}
	// the 20 amino acids, or all 26 letters UniProtKB sequences use (U selenocysteine, O pyrrolysine, B Z J X)
	e.Sequence = vk.DrawSeq(t, "sequence", rapid.SampledFrom([]string{"ACDEFGHIKLMNPQRSTVWY", "ACDEFGHIKLMNPQRSTVWY", "ACDEFGHIKLMNPQRSTVWYUOBZJX"}).Draw(t, "sequence_alphabet"), 1, 400).String()
	if rapid.IntRange(0, 2).Draw(t, "annotated") == 0 { // an entry annotated the way the data bank's are
		e.Extras = rapid.SliceOfN(rapid.IntRange(0, len(extras)-1), 1, 12).Draw(t, "extras")
		e.Precursor = rapid.Bool().Draw(t, "precursor")
	}
	if rapid.IntRange(0, 3).Draw(t, "other_spellings") == 0 { // the same values in the other lexical forms the schema allows
		e.Spelling = rapid.IntRange(1, 31).Draw(t, "spelling")
	}
	if rapid.IntRange(0, 2).Draw(t, "dates") == 0 {
		e.Created, e.Modified, e.SeqModified = drawDate(t, "created"), drawDate(t, "modified"), drawDate(t, "sequence_modified")
	}
	return e
}

func drawEntries(t *rapid.T, max int) []EntrySpec {
	var n int
	switch rapid.IntRange(0, 9).Draw(t, "entries_class") {
	case 0:
		n = 0
	case 1:
		n = rapid.IntRange(21, max).Draw(t, "n_entries_many")
	default:
		n = rapid.IntRange(1, 20).Draw(t, "n_entries")
	}
	es := make([]EntrySpec, n)
	for i := range es {
		es[i] = drawEntry(t)
	}
	return es
}

func drawConsumer(t *rapid.T) Consumer {
	c := Consumer{Kind: rapid.SampledFrom([]string{"sequential", "concurrent"}).Draw(t, "consumer")}
	c.EntryCap = rapid.SampledFrom([]int{0, 0, 1, 2, 10, 100}).Draw(t, "entry_capacity")
	if rapid.IntRange(0, 2).Draw(t, "entry_capacity_random") == 0 {
		c.EntryCap = rapid.IntRange(0, 100).Draw(t, "entry_capacity_value")
	}
	c.ErrCap = 100 // the documented usage; a sequential consumer needs room for the errors reported before the entries are drained
	if c.Kind == "concurrent" {
		c.ErrCap = rapid.SampledFrom([]int{0, 0, 1, 10, 100}).Draw(t, "error_capacity")
		if rapid.IntRange(0, 2).Draw(t, "error_capacity_random") == 0 {
			c.ErrCap = rapid.IntRange(0, 100).Draw(t, "error_capacity_value")
		}
	}
	c.Yields = rapid.SliceOfN(rapid.IntRange(0, 10), 0, 4).Draw(t, "yields")
	c.Procs = rapid.SampledFrom([]int{1, 2, 16}).Draw(t, "gomaxprocs")
	return c
}

func genWellFormed(t *rapid.T) Case {
	c := Case{Entries: drawEntries(t, 200), Copyright: rapid.Bool().Draw(t, "copyright"), Pretty: rapid.Bool().Draw(t, "pretty"), Damage: Damage{Kind: "none"}, Consumer: drawConsumer(t)}
	if rapid.IntRange(0, 3).Draw(t, "via_gzip") == 0 {
		c.ViaGzip = true
		c.Consumer.Kind, c.Consumer.EntryCap, c.Consumer.ErrCap = rapid.SampledFrom([]string{"sequential", "concurrent"}).Draw(t, "gzip_consumer"), 100, 100
	}
	return c
}

func genDamaged(t *rapid.T) Case {
	c := Case{Entries: drawEntries(t, 60), Copyright: rapid.Bool().Draw(t, "copyright"), Pretty: rapid.Bool().Draw(t, "pretty"), Consumer: drawConsumer(t)}
	c.Damage = Damage{Kind: rapid.SampledFrom([]string{"truncate", "truncate", "delete_lt", "delete_gt", "rename_close", "stray_amp", "unclosed_quote", "invalid_byte", "bad_number", "bad_date", "undeclared_entity", "truncate_gzip", "corrupt_gzip", "corrupt_gzip"}).Draw(t, "damage"),
		At: rapid.IntRange(0, 1<<30).Draw(t, "damage_at")}
	if c.Damage.Kind == "truncate_gzip" || c.Damage.Kind == "corrupt_gzip" || rapid.IntRange(0, 4).Draw(t, "via_gzip") == 0 {
		c.ViaGzip = true
		c.Consumer.Kind, c.Consumer.EntryCap, c.Consumer.ErrCap = rapid.SampledFrom([]string{"sequential", "concurrent"}).Draw(t, "gzip_consumer"), 100, 100
	}
	return c
}

var subWellFormed = vk.Register(&vk.Sub[Case]{Name: "wellformed", Gen: genWellFormed, Check: check, NonTrivial: nonTrivial, Labels: labels, Sample: sample})
var subDamaged = vk.Register(&vk.Sub[Case]{Name: "damaged", Gen: genDamaged, Check: check, NonTrivial: nonTrivial, Labels: labels, Sample: sample})
var subTruncation = vk.Register(&vk.Sub[Case]{Name: "truncation", Check: check, NonTrivial: nonTrivial, Sample: sample})

func TestSub_wellformed(t *testing.T) { vk.RunRapid(t, subWellFormed) }
func TestSub_damaged(t *testing.T)    { vk.RunRapid(t, subDamaged) }

// truncation: every byte offset of small documents, with both consumer kinds.
func TestSub_truncation(t *testing.T) {
	docs := vk.Pick(6, 60)
	vk.RunEnum(t, subTruncation, fmt.Sprintf("truncation at every byte offset of %d small documents (0..4 entries, <= ~1500 bytes) x {sequential, concurrent} consumers", docs), true, func(yield func(Case) bool) {
		for d := 0; d < docs; d++ {
			base := Case{Copyright: d%2 == 0, Pretty: d%3 != 0}
			ne := d % 5
			for i := 0; i < ne; i++ {
				seq := vk.Fill(uint64(100*d+i), 5+(7*d+3*i)%40, "ACDEFGHIKLMNPQRSTVWY")
				e := EntrySpec{Accessions: []string{fmt.Sprintf("P%05d", 10*d+i)}, Names: []string{fmt.Sprintf("N%d_T%d", d, i)}, Sequence: seq}
				if (d+i)%2 == 0 {
					e.Accessions = append(e.Accessions, fmt.Sprintf("Q%05d", i))
					e.Protein = "Protein & <kinase> " + fmt.Sprint(i)
				}
				if (d+i)%3 == 0 {
					e.Organism = "Escherichia coli (strain K12)"
				}
				base.Entries = append(base.Entries, e)
			}
			doc, _, _ := document(base)
			for t := 0; t <= len(doc); t++ {
				for k, kind := range []string{"sequential", "concurrent"} {
					c := base
					c.Damage = Damage{Kind: "truncate", At: t}
					c.Consumer = Consumer{Kind: kind, EntryCap: []int{100, 0, 1, 3}[(t+k)%4], ErrCap: 100}
					if kind == "concurrent" {
						c.Consumer.ErrCap = []int{0, 1, 100}[t%3]
					}
					if !yield(c) {
						return
					}
				}
			}
		}
	})
}

var subStalls = vk.Register(&vk.Sub[Case]{Name: "stalls", Check: check, NonTrivial: nonTrivial, Sample: sample})

// TestSub_stalls: a consumer that takes the first entry and then does nothing for a while - longer than the round
// numbers a well-meant timeout would use - before it goes on: every entry still arrives, in order, and both channels are
// closed. One case per process, so the sub-check takes as long as its longest stall.
func TestSub_stalls(t *testing.T) {
	stalls := []int{1200}
	if vk.Thorough() {
		stalls = []int{1200, 2500, 5500, 11000, 16000, 31000, 61000}
	}
	vk.RunManual(t, subStalls, "a consumer stalling for 1.2 s (quick) / 1.2 .. 61 s (thorough) after the first entry, sequential and concurrent consumers, through Parse (five entries, entry-channel capacities 0 and 1) and through Read on a gzip file (110 entries, more than its channel holds)", true, func(m *vk.Manual[Case]) {
		unit := 0
		for _, ms := range stalls {
			for _, capacity := range []int{0, 1} {
				for k, kind := range []string{"sequential", "concurrent"} {
					unit++
					if !vk.Mine(unit) {
						continue
					}
					c := Case{Copyright: true, Pretty: true, Damage: Damage{Kind: "none"}, Consumer: Consumer{Kind: kind, EntryCap: capacity, ErrCap: 100, StallMs: ms, Procs: 2}}
					c.ViaGzip = (k+capacity)%2 == 1
					n := 5
					if c.ViaGzip {
						n = 110 // Read's own channel holds 100: more than that, so that the parser has to wait for the consumer
					}
					for i := 0; i < n; i++ {
						c.Entries = append(c.Entries, EntrySpec{Accessions: []string{fmt.Sprintf("P%05d", i)}, Names: []string{fmt.Sprintf("STALL_%d", i)}, Sequence: vk.Fill(uint64(ms+i), 20+i%7, "ACDEFGHIKLMNPQRSTVWY")})
					}
					if !m.Eval(c) {
						return
					}
				}
			}
		}
	})
}

func TestReplay(t *testing.T) { vk.Replay(t) }

// ---------------------------------------------------------------------------------------
// native coverage-guided fuzzing (thorough tier)

var subDamagedFuzz = vk.Register(&vk.Sub[Case]{Name: "damaged_fuzz", Gen: genDamaged, Check: check})

func FuzzSub_damaged_fuzz(f *testing.F) { vk.RunFuzz(f, subDamagedFuzz) }

// byte-level target: any byte stream must make the parser terminate with both channels closed,
// and a stream the standard tokenizer rejects must produce at least one error.
type BytesCase struct {
	Data []byte `json:"data"`
}

func checkBytes(b BytesCase) error {
	c := Case{Consumer: Consumer{Kind: "concurrent", EntryCap: 0, ErrCap: 0}}
	if len(b.Data)%2 == 1 {
		c.Consumer = Consumer{Kind: "sequential", EntryCap: 3, ErrCap: 100}
	}
	o, problem := consume(c, b.Data)
	if problem != nil {
		return problem
	}
	if judgeMalformed(b.Data) && len(o.errs) == 0 {
		return vk.Errf("a stream of %d bytes that the standard XML tokenizer rejects was parsed without any error (%d entries delivered)", len(b.Data), len(o.entries))
	}
	return nil
}

var subBytes = vk.Register(&vk.Sub[BytesCase]{Name: "bytes_fuzz", Check: checkBytes})

func FuzzSub_bytes_fuzz(f *testing.F) {
	if fh, err := os.Open(vk.RepoPath("io/uniprot/data/uniprot_sprot_mini.xml.gz")); err == nil {
		if zr, err := gzip.NewReader(fh); err == nil {
			if b, err := io.ReadAll(zr); err == nil {
				f.Add(b[:min(len(b), 6000)])
			}
		}
		fh.Close()
	}
	small := Case{Entries: []EntrySpec{{Accessions: []string{"P12345"}, Names: []string{"A_B"}, Sequence: "MKV"}, {Accessions: []string{"Q1"}, Names: []string{"C_D"}, Protein: "x & y", Sequence: "MA"}}, Copyright: true, Pretty: true}
	doc, _, _ := document(small)
	f.Add(doc)
	f.Add(doc[:len(doc)/2])
	f.Fuzz(func(t *testing.T, data []byte) {
		c := BytesCase{Data: data}
		if err := vk.SafeCheck(subBytes, c); err != nil {
			vk.FailFuzz(t, subBytes, c, err)
		}
	})
}
