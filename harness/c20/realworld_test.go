package c20

// Child elements of a UniProtKB entry as the data bank really writes them (uniprot.xsd), beyond the handful the
// harness's own entry writer produces: every kind of comment, cross-reference, citation, feature location (including
// the unknown and uncertain ends of precursor and fragment entries, which carry a status and no position), evidence.
// Rank is the element's place in the schema's order; chosen extras are written in that order, after <organism>
// and before <sequence>. None of them says anything about accessions, names or sequence text.
type extra struct {
	rank int
	xml  string
}

var extras = []extra{
	{1, `<organismHost><name type="scientific">Homo sapiens</name><name type="common">Human</name><dbReference type="NCBI Taxonomy" id="9606"/></organismHost>`},
	{2, `<geneLocation type="plasmid"><name>pXO1</name></geneLocation>`},
	{2, `<geneLocation type="mitochondrion"/>`},
	{2, `<geneLocation type="plasmid" evidence="1"><name status="unknown"/></geneLocation>`},
	{3, `<reference key="1"><citation type="journal article" date="2004" name="Virology" volume="323" first="70" last="84"><title>Comparative genomic analyses of frog virus 3, type species of the genus Ranavirus (family Iridoviridae).</title><authorList><person name="Tan W.G."/><person name="Barkman T.J."/><consortium name="The MGC Project Team"/></authorList><dbReference type="PubMed" id="15165820"/><dbReference type="DOI" id="10.1016/j.virol.2004.02.019"/></citation><scope>NUCLEOTIDE SEQUENCE [LARGE SCALE GENOMIC DNA]</scope><source><strain>K-12 / MG1655</strain><tissue evidence="2">Liver</tissue><plasmid>pBR322</plasmid><transposon>Tn10</transposon></source></reference>`},
	{3, `<reference key="2"><citation type="submission" date="2006-10" db="EMBL/GenBank/DDBJ databases"><authorList><person name="Smith J."/></authorList></citation><scope>NUCLEOTIDE SEQUENCE</scope><scope>VARIANT ALA-12</scope></reference>`},
	{3, `<reference key="3" evidence="1 2"><citation type="book" date="1997" name="Methods in X" volume="7" first="1" last="9" publisher="Wiley &amp; Sons" city="New York"><title>T &lt;i&gt;in vivo&lt;/i&gt;</title><editorList><person name="Ed A."/></editorList><authorList><person name="Au B."/></authorList></citation><scope>REVIEW</scope></reference>`},
	{3, `<reference key="4"><citation type="patent" date="1990-09-20" number="WO9010703"><authorList><person name="X Y."/></authorList><title>P</title></citation><scope>PROTEIN SEQUENCE OF 2-15</scope></reference>`},
	{3, `<reference key="5"><citation type="thesis" date="1977" institute="University of X" country="Switzerland"><authorList><person name="Z W."/></authorList></citation><scope>FUNCTION</scope></reference>`},
	{3, `<reference key="6"><citation type="online journal article" date="1998" name="Plant Gene Register" first="PGR98-001"><authorList><person name="Q R."/></authorList><locator>PGR98-001</locator></citation><scope>TISSUE SPECIFICITY</scope></reference>`},
	{4, `<comment type="subcellular location"><molecule>Isoform 1</molecule><subcellularLocation><location evidence="1">Host membrane</location><topology evidence="1">Single-pass membrane protein</topology><orientation>Cytoplasmic side</orientation></subcellularLocation><subcellularLocation><location>Nucleus</location></subcellularLocation><text>Note.</text></comment>`},
	{4, `<comment type="alternative products"><event type="alternative splicing"/><event type="alternative initiation"/><isoform><id>P12345-1</id><name>1</name><name evidence="3">Long</name><sequence type="displayed"/></isoform><isoform><id>P12345-2</id><id>Q00000-1</id><name>2</name><sequence type="described" ref="VSP_000001 VSP_000002"/><text>Inactive.</text></isoform><isoform><id>P12345-3</id><name>3</name><sequence type="not described"/></isoform></comment>`},
	{4, `<comment type="interaction"><interactant intactId="EBI-1"><id>P1</id></interactant><interactant intactId="EBI-2"><id>P2</id><label>ABC</label><dbReference type="UniProtKB" id="P2"/></interactant><organismsDiffer>false</organismsDiffer><experiments>3</experiments></comment>`},
	{4, `<comment type="interaction"><interactant intactId="EBI-3"/><interactant intactId="EBI-4"><id>Q9</id></interactant><organismsDiffer>true</organismsDiffer><experiments>12</experiments></comment>`},
	{4, `<comment type="catalytic activity"><reaction evidence="2"><text>ATP + H2O = ADP + phosphate + H(+)</text><dbReference type="Rhea" id="RHEA:13065"/><dbReference type="ChEBI" id="CHEBI:15377"/><dbReference type="EC" id="3.6.1.3"/></reaction><physiologicalReaction direction="left-to-right" evidence="2"><dbReference type="Rhea" id="RHEA:13066"/></physiologicalReaction><physiologicalReaction direction="right-to-left"><dbReference type="Rhea" id="RHEA:13067"/></physiologicalReaction></comment>`},
	{4, `<comment type="cofactor"><cofactor evidence="1"><name>Mg(2+)</name><dbReference type="ChEBI" id="CHEBI:18420"/></cofactor><cofactor><name>Zn(2+)</name><dbReference type="ChEBI" id="CHEBI:29105"/></cofactor><text evidence="1">Binds 1 ion per subunit.</text></comment>`},
	{4, `<comment type="biophysicochemical properties"><absorption><max evidence="3">~410 nm</max><text>Shoulder at 335 nm.</text></absorption><kinetics><KM evidence="3">71 uM for ATP</KM><KM>0.5 mM for Mg(2+)</KM><Vmax>1.2 umol/min/mg enzyme</Vmax><text>kcat is 9 sec(-1).</text></kinetics><phDependence><text>Optimum pH is 7.5.</text></phDependence><redoxPotential><text>E(0) is -448 mV.</text></redoxPotential><temperatureDependence><text>Optimum temperature is 37 degrees Celsius.</text></temperatureDependence></comment>`},
	{4, `<comment type="mass spectrometry" mass="2752.5" error="0.2" method="MALDI" evidence="4"><location><begin position="1"/><end position="3"/></location><text>Monoisotopic mass.</text></comment>`},
	{4, `<comment type="mass spectrometry" mass="11338" method="Electrospray"><location sequence="P12345-2"><begin status="unknown"/><end position="100"/></location></comment>`},
	{4, `<comment type="sequence caution" evidence="5"><conflict type="erroneous initiation"><sequence resource="EMBL-CDS" id="AAA1" version="1"/></conflict><text>Extended N-terminus.</text></comment>`},
	{4, `<comment type="sequence caution"><conflict type="frameshift" ref="2"><sequence resource="EMBL" id="X1"/></conflict></comment>`},
	{4, `<comment type="disease"><disease id="DI-00001"><name>X syndrome</name><acronym>XS</acronym><description>A disease characterized by y &amp; z.</description><dbReference type="MIM" id="100100"/></disease><text>The disease is caused by variants affecting the gene represented in this entry.</text></comment>`},
	{4, `<comment type="online information" name="Wikipedia"><link uri="https://en.wikipedia.org/wiki/X?a=1&amp;b=2"/><text>entry</text></comment>`},
	{4, `<comment type="RNA editing" locationType="Undetermined"><text>Partially edited.</text></comment>`},
	{4, `<comment type="RNA editing"><location><position position="156"/></location><location><position position="158"/></location><text>Edited at about 30%.</text></comment>`},
	{4, `<comment type="similarity"><text evidence="1 2 3">Belongs to the X family.</text></comment>`},
	{5, `<dbReference type="EMBL" id="AY548484"><property type="protein sequence ID" value="AAT09660.1"/><property type="molecule type" value="Genomic_DNA"/></dbReference>`},
	{5, `<dbReference type="GO" id="GO:0016021"><property type="term" value="C:integral component of membrane"/><property type="evidence" value="ECO:0000256"/><property type="project" value="UniProtKB-KW"/></dbReference>`},
	{5, `<dbReference type="Ensembl" id="ENST1"><molecule id="P12345-2"/><property type="protein sequence ID" value="ENSP1"/><property type="gene ID" value="ENSG1"/></dbReference>`},
	{5, `<dbReference type="PDB" id="1ABC" evidence="1"><property type="method" value="X-ray"/><property type="resolution" value="1.90 A"/><property type="chains" value="A/B=1-120"/></dbReference>`},
	{6, `<proteinExistence type="predicted"/>`},
	{6, `<proteinExistence type="evidence at protein level"/>`},
	{7, `<keyword id="KW-0812">Transmembrane</keyword>`},
	{7, `<keyword id="KW-1185" evidence="1">Reference proteome</keyword>`},
	{8, `<feature type="signal peptide" evidence="2"><location><begin position="1"/><end status="unknown"/></location></feature>`},
	{8, `<feature type="chain" id="PRO_0000021416" description="Uncharacterized protein X"><location><begin status="unknown"/><end position="120"/></location></feature>`},
	{8, `<feature type="propeptide" id="PRO_5" description="Removed in mature form"><location><begin status="less than" position="1"/><end status="greater than" position="3"/></location></feature>`},
	{8, `<feature type="peptide" id="PRO_6"><location><begin status="uncertain" position="2"/><end status="uncertain" position="9" evidence="1"/></location></feature>`},
	{8, `<feature type="non-terminal residue"><location><position position="1"/></location></feature>`},
	{8, `<feature type="non-adjacent residues"><location><begin position="4"/><end position="5"/></location></feature>`},
	{8, `<feature type="sequence variant" id="VAR_000001" description="In dbSNP:rs123." evidence="2 3"><original>A</original><variation>T</variation><location><position position="5"/></location></feature>`},
	{8, `<feature type="splice variant" id="VSP_000001" description="In isoform 2."><original>MK</original><variation>M</variation><location><begin position="1"/><end position="2"/></location></feature>`},
	{8, `<feature type="splice variant" id="VSP_000002" description="In isoform 2."><location><begin position="3"/><end position="7"/></location></feature>`},
	{8, `<feature type="mutagenesis site" description="Loss of activity."><original>K</original><variation>A</variation><variation>R</variation><location><position position="3"/></location></feature>`},
	{8, `<feature type="transmembrane region" description="Helical" evidence="1"><location sequence="P12345-2"><begin position="1"/><end position="2"/></location></feature>`},
	{8, `<feature type="disulfide bond" description="Interchain (with C-12 in chain B)"><location><position position="2"/></location></feature>`},
	{8, `<feature type="cross-link" description="Glycyl lysine isopeptide (Lys-Gly) (interchain with G-Cter in ubiquitin)"><location><position status="uncertain" position="4"/></location></feature>`},
	{8, `<feature type="sequence conflict" description="In Ref. 2; AAA1." ref="2"><original>EL</original><variation>DV</variation><location><begin position="1"/><end position="2"/></location></feature>`},
	{8, `<feature type="binding site"><location><position position="3"/></location><ligand><name>ATP</name><dbReference type="ChEBI" id="CHEBI:30616"/></ligand></feature>`},
	{9, `<evidence key="1" type="ECO:0000255"/>`},
	{9, `<evidence key="2" type="ECO:0000269"><source><dbReference type="PubMed" id="15165820"/></source></evidence>`},
	{9, `<evidence key="3" type="ECO:0000250"><source><dbReference type="UniProtKB" id="P00001"/></source></evidence>`},
	{9, `<evidence key="4" type="ECO:0000313"><source ref="1"/><importedFrom><dbReference type="EMBL" id="AAA1"/></importedFrom></evidence>`},
	{9, `<evidence key="5" type="ECO:0000305"/>`},
}
