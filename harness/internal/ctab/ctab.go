// Package ctab holds harness helpers around poly's codon tables (construction of detached
// tables, flattening); the reference semantics live in the property packages.
package ctab

import (
	"encoding/json"
	"fmt"
	"sort"
	"strings"

	"github.com/TimothyStiles/poly/transform/codon"
	"pgregory.net/rapid"
	"verifharness/internal/ref"
	"verifharness/internal/vk"
)

// Spec describes a table: a default id, optionally re-weighted from a coding sequence.
// Tables are always built on a deep copy (JSON round trip), so the package defaults are never
// written to (see C08 / K-C08-1).
type Spec struct {
	ID       int        `json:"id"`
	Reweight bool       `json:"reweight"`
	Seq      vk.SeqSpec `json:"seq,omitempty"`
	// Order, when non-zero, permutes the amino-acid list and every codon list of the built table
	// (deterministically from the value): a table as another process, whose map iteration went another
	// way, would have written it. Nothing a table means depends on these orders.
	Order uint64 `json:"order,omitempty"`
	// Twice (with Reweight): the table value is first re-weighted from a sequence with the same number of
	// codons as Seq but another composition (every codon of Seq replaced by its successor in the list of
	// 64), handed to the caller's function, and then re-weighted in place from Seq: the table a caller
	// holds after changing their mind. What it means is given by Seq alone.
	Twice bool `json:"twice,omitempty"`
	// Scale, when above 1: the usage of a whole genome rather than of one gene - the table is re-weighted from the
	// coding sequence repeated Scale times (whole codons only, so every in-frame count is exactly Scale times what
	// one copy gives). Up to 1.5 million letters this is done literally; beyond that the counts of one copy are
	// multiplied in place, which is the same table. A default table (all weights 1) gets all weights Scale.
	Scale int `json:"scale,omitempty"`
}

// Build returns a detached table for the spec.
func (s Spec) Build() codon.Table { return s.BuildWith(nil) }

// BuildWith is Build; between, if not nil, is called with the table as it is after the first of the two
// re-weightings of a Twice spec.
func (s Spec) BuildWith(between func(codon.Table)) codon.Table {
	b, err := json.Marshal(codon.GetCodonTable(s.ID))
	if err != nil {
		panic(err)
	}
	t := codon.ParseCodonJSON(b)
	if s.Order != 0 {
		x := s.Order
		next := func(n int) int { // splitmix64
			x += 0x9E3779B97F4A7C15
			z := x
			z = (z ^ (z >> 30)) * 0xBF58476D1CE4E5B9
			z = (z ^ (z >> 27)) * 0x94D049BB133111EB
			z ^= z >> 31
			return int(z % uint64(n))
		}
		for i := len(t.AminoAcids) - 1; i > 0; i-- {
			j := next(i + 1)
			t.AminoAcids[i], t.AminoAcids[j] = t.AminoAcids[j], t.AminoAcids[i]
		}
		for _, aa := range t.AminoAcids {
			for i := len(aa.Codons) - 1; i > 0; i-- {
				j := next(i + 1)
				aa.Codons[i], aa.Codons[j] = aa.Codons[j], aa.Codons[i]
			}
		}
	}
	if s.Reweight {
		seq := s.Seq.String()
		if s.Twice {
			t = t.OptimizeTable(otherComposition(seq))
			if between != nil {
				between(t)
			}
		}
		if s.Scale > 1 && len(seq)%3 == 0 && len(seq)*s.Scale <= 1500000 {
			return t.OptimizeTable(strings.Repeat(seq, s.Scale))
		}
		t = t.OptimizeTable(seq)
	}
	if s.Scale > 1 {
		for _, aa := range t.AminoAcids {
			for i := range aa.Codons {
				aa.Codons[i].Weight *= s.Scale
			}
		}
	}
	return t
}

// otherComposition replaces every complete upper-case A/C/G/T codon of seq by its successor in ref.AllCodons.
func otherComposition(seq string) string {
	codons := ref.AllCodons()
	index := map[string]int{}
	for i, c := range codons {
		index[c] = i
	}
	var b strings.Builder
	i := 0
	for ; i+3 <= len(seq); i += 3 {
		if k, ok := index[strings.ToUpper(seq[i:i+3])]; ok {
			b.WriteString(codons[(k+1)%len(codons)])
		} else {
			b.WriteString(seq[i : i+3])
		}
	}
	b.WriteString(seq[i:])
	return b.String()
}

func (s Spec) String() string {
	if !s.Reweight {
		sc := ""
		if s.Scale > 1 {
			sc = fmt.Sprintf(", every weight %d", s.Scale)
		}
		if s.Order != 0 {
			return fmt.Sprintf("default table %d (amino acids and codons listed in another order)%s", s.ID, sc)
		}
		return fmt.Sprintf("default table %d%s", s.ID, sc)
	}
	q := s.Seq.String()
	if len(q) > 60 {
		q = fmt.Sprintf("%s…(%d letters)", q[:60], len(q))
	}
	extra := ""
	if s.Order != 0 {
		extra += ", amino acids and codons listed in another order"
	}
	if s.Twice {
		extra += ", after an earlier re-weighting of the same value"
	}
	if s.Scale > 1 {
		extra += fmt.Sprintf(", repeated %d times", s.Scale)
	}
	return fmt.Sprintf("table %d re-weighted from %q%s", s.ID, q, extra)
}

// Flat is a table as maps.
type Flat struct {
	W       map[string]int    // codon -> weight
	L       map[string]string // codon -> letter
	Classes map[string][]string
	Starts  []string
	Stops   []string
}

// Flatten converts a table; an error means a codon occurs twice.
func Flatten(t codon.Table) (Flat, error) {
	f := Flat{W: map[string]int{}, L: map[string]string{}, Classes: map[string][]string{}, Starts: t.StartCodons, Stops: t.StopCodons}
	for _, aa := range t.AminoAcids {
		for _, c := range aa.Codons {
			if _, dup := f.W[c.Triplet]; dup {
				return f, fmt.Errorf("codon %s occurs twice in the table", c.Triplet)
			}
			f.W[c.Triplet] = c.Weight
			f.L[c.Triplet] = aa.Letter
			f.Classes[aa.Letter] = append(f.Classes[aa.Letter], c.Triplet)
		}
	}
	for _, cs := range f.Classes {
		sort.Strings(cs)
	}
	return f, nil
}

// ClassTotal is the summed weight of the letter's synonyms.
func (f Flat) ClassTotal(letter string) int {
	t := 0
	for _, c := range f.Classes[letter] {
		t += f.W[c]
	}
	return t
}

// Letters lists the table's letters, sorted.
func (f Flat) Letters() []string {
	var l []string
	for k := range f.Classes {
		l = append(l, k)
	}
	sort.Strings(l)
	return l
}

// IDs lists the 25 table ids.
func IDs() []int {
	ids := make([]int, len(ref.GeneticCodes))
	for i, g := range ref.GeneticCodes {
		ids[i] = g.ID
	}
	return ids
}

// EveryCodonOnce is the concatenation of the 64 codons.
var EveryCodonOnce = strings.Join(ref.AllCodons(), "")

// DrawSpec draws a table spec. cover makes re-weighting sequences contain every codon at
// least once, so that every synonym class has a positive total.
func DrawSpec(t *rapid.T, name string, cover bool, maxLen int) Spec {
	return DrawSpecFor(t, name, cover, maxLen, rapid.SampledFrom(IDs()).Draw(t, name+"_id"))
}

// DrawSpecFor is DrawSpec for a given table id.
func DrawSpecFor(t *rapid.T, name string, cover bool, maxLen int, id int) Spec {
	s := Spec{ID: id}
	if rapid.IntRange(0, 2).Draw(t, name+"_other_order") == 0 {
		s.Order = 1 + rapid.Uint64Range(0, 1<<62).Draw(t, name+"_order")
	}
	if rapid.IntRange(0, 3).Draw(t, name+"_reweight") > 0 {
		s.Reweight = true
		body := DrawCoding(t, name+"_coding", maxLen)
		if cover && rapid.Bool().Draw(t, name+"_cover_every_codon") {
			// every codon k times, so that shares stay interesting
			k := rapid.IntRange(1, 3).Draw(t, name+"_cover_times")
			s.Seq = vk.SeqSpec{Lit: strings.Repeat(EveryCodonOnce, k) + body.Lit, Fill: body.Fill, N: body.N, Alpha: body.Alpha}
		} else if cover {
			// every amino acid (synonym class) occurs, but not every codon: some synonyms keep weight 0
			g, _ := ref.GeneticCodeByID(s.ID)
			var pre strings.Builder
			for _, letter := range g.Letters() {
				codons := g.CodonsOf(letter)
				picks := rapid.SliceOfNDistinct(rapid.IntRange(0, len(codons)-1), 1, len(codons), func(i int) int { return i }).Draw(t, name+"_class_"+string(letter))
				for _, i := range picks {
					pre.WriteString(strings.Repeat(codons[i], rapid.IntRange(1, 4).Draw(t, name+"_class_times")))
				}
			}
			// the random body may only use codons already present, so that absent synonyms stay at zero often:
			// keep the run-length part of the body (it is short) and drop the bulk filler half of the time
			if rapid.Bool().Draw(t, name+"_drop_bulk") {
				body.N = 0
			}
			s.Seq = vk.SeqSpec{Lit: pre.String() + body.Lit, Fill: body.Fill, N: body.N, Alpha: body.Alpha}
		} else {
			s.Seq = body
		}
		s.Twice = rapid.IntRange(0, 3).Draw(t, name+"_twice") == 0
	}
	// genome-scale usage: one table in five; the total stays below 10^8 codons (2.5 human genomes)
	if k := rapid.IntRange(0, 9).Draw(t, name+"_genome_scale"); k < 2 {
		s.Scale = rapid.SampledFrom([]int{3, 40, 700, 20000, 65536}).Draw(t, name+"_scale")
		if n := len(s.Seq.String()) / 3; n > 0 && s.Scale > 100000000/n {
			s.Scale = max(2, 100000000/n)
		}
	}
	return s
}

// DrawCoding draws a coding sequence with a skewed codon usage: a few codons are repeated
// many times so that usage shares spread over the whole range (including below 10 %).
func DrawCoding(t *rapid.T, name string, maxLen int) vk.SeqSpec {
	codons := ref.AllCodons()
	n := rapid.IntRange(0, 40).Draw(t, name+"_n_runs")
	var b strings.Builder
	for i := 0; i < n; i++ {
		c := codons[rapid.IntRange(0, 63).Draw(t, name+"_codon")]
		k := rapid.IntRange(1, 30).Draw(t, name+"_times")
		b.WriteString(strings.Repeat(c, k))
	}
	sp := vk.SeqSpec{Lit: b.String()}
	if rapid.IntRange(0, 3).Draw(t, name+"_bulk") == 0 {
		sp.Fill = rapid.Uint64().Draw(t, name+"_fill")
		sp.N = 3 * rapid.IntRange(1, max(1, maxLen/3)).Draw(t, name+"_bulk_codons")
		sp.Alpha = "ACGT"
	}
	return sp
}

// DrawGene draws a sequence shaped like a complete gene of the given genetic code: one of the code's start codons,
// up to maxCodons further codons (without a stop codon among them three times out of four), and one of the code's
// stop codons at the end; whole codons only. One in three is all lower case, one in six mixed.
func DrawGene(t *rapid.T, name string, id int, maxCodons int) string {
	g, ok := ref.GeneticCodeByID(id)
	if !ok || len(g.Starts) == 0 || len(g.Stops) == 0 {
		g, _ = ref.GeneticCodeByID(1)
	}
	stop := map[string]bool{}
	for _, s := range g.Stops {
		stop[s] = true
	}
	var sense []string
	for _, c := range ref.AllCodons() {
		if !stop[c] {
			sense = append(sense, c)
		}
	}
	pool := sense
	if rapid.IntRange(0, 3).Draw(t, name+"_internal_stops") == 0 {
		pool = ref.AllCodons()
	}
	var b strings.Builder
	b.WriteString(rapid.SampledFrom(g.Starts).Draw(t, name+"_start"))
	n := vk.DrawSize(t, name+"_codons", 0, maxCodons)
	fill := vk.Fill(rapid.Uint64().Draw(t, name+"_body"), n, "0123456789abcdefghijklmnopqrstuvwxyzABCDEFGHIJKLMNOPQRSTUVWXYZ+/")
	for i := 0; i < n; i++ {
		k := strings.IndexByte("0123456789abcdefghijklmnopqrstuvwxyzABCDEFGHIJKLMNOPQRSTUVWXYZ+/", fill[i])
		b.WriteString(pool[k%len(pool)])
	}
	b.WriteString(rapid.SampledFrom(g.Stops).Draw(t, name+"_stop"))
	s := b.String()
	switch rapid.IntRange(0, 5).Draw(t, name+"_case") {
	case 0, 1:
		return strings.ToLower(s)
	case 2:
		x := []byte(s)
		for i := range x {
			if (i*7+i/5)%3 == 0 {
				x[i] |= 0x20
			}
		}
		return string(x)
	}
	return s
}
