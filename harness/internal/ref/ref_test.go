package ref

import (
	"math/rand"
	"testing"

	"lukechampine.com/blake3"
)

// Harness self-tests (not property checks).
func TestBlake3KnownAnswers(t *testing.T) {
	if msg := Blake3SelfTest(); msg != "" {
		t.Fatal(msg)
	}
}

func TestBlake3AgainstLibrary(t *testing.T) {
	r := rand.New(rand.NewSource(7))
	for _, n := range []int{0, 1, 63, 64, 65, 1023, 1024, 1025, 2048, 2049, 3072, 3073, 4096, 5000, 8192, 8193, 100000, 1 << 20} {
		b := make([]byte, n)
		r.Read(b)
		want := blake3.Sum256(b)
		if got := Blake3Sum256(b); got != want {
			t.Fatalf("length %d: %x vs %x", n, got, want)
		}
	}
}
