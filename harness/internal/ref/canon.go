package ref

// LeastRotation returns the lexicographically least rotation of s (all rotations compared
// for short strings, the two-pointer minimal-representation scan otherwise).
func LeastRotation(s string) string {
	n := len(s)
	if n == 0 {
		return ""
	}
	d := s + s
	if n <= 48 {
		best := 0
		for k := 1; k < n; k++ {
			if d[k:k+n] < d[best:best+n] {
				best = k
			}
		}
		return d[best : best+n]
	}
	i, j, k := 0, 1, 0
	for i < n && j < n && k < n {
		a, b := d[i+k], d[j+k]
		if a == b {
			k++
			continue
		}
		if a > b {
			i += k + 1
		} else {
			j += k + 1
		}
		if i == j {
			j++
		}
		k = 0
	}
	st := min(i, j)
	return d[st : st+n]
}

// Canonical is the seqhash v1 canonical representative of an upper-case sequence: least
// rotation when circular, lesser strand when double-stranded (strands rotated first when
// both). rc is the reverse-complement function to use for the other strand.
func Canonical(upper string, circular, doubleStranded bool, rc func(string) string) string {
	a := upper
	if circular {
		a = LeastRotation(a)
	}
	if !doubleStranded {
		return a
	}
	b := rc(upper)
	if circular {
		b = LeastRotation(b)
	}
	if b < a {
		return b
	}
	return a
}
