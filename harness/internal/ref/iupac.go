// Package ref holds reference models written independently of poly's code.
package ref

import "strings"

// IUPAC nucleotide codes as base sets (bit 1 = A, 2 = C, 4 = G, 8 = T), from the IUPAC-IUB
// 1985 nomenclature (Eur. J. Biochem. 150: 1-5).
const (
	bA = 1
	bC = 2
	bG = 4
	bT = 8
)

var codeSet = map[byte]int{
	'A': bA, 'C': bC, 'G': bG, 'T': bT,
	'R': bA | bG, 'Y': bC | bT, 'S': bC | bG, 'W': bA | bT, 'K': bG | bT, 'M': bA | bC,
	'B': bC | bG | bT, 'D': bA | bG | bT, 'H': bA | bC | bT, 'V': bA | bC | bG,
	'N': bA | bC | bG | bT,
}

var setCode = func() map[int]byte {
	m := map[int]byte{}
	for c, s := range codeSet {
		m[s] = c
	}
	return m
}()

// IUPACCodes lists the 15 upper-case codes in a fixed order.
const IUPACCodes = "ACGTRYSWKMBDHVN"

// complementSet complements every base of the set (A<->T, C<->G).
func complementSet(s int) int {
	out := 0
	if s&bA != 0 {
		out |= bT
	}
	if s&bT != 0 {
		out |= bA
	}
	if s&bC != 0 {
		out |= bG
	}
	if s&bG != 0 {
		out |= bC
	}
	return out
}

// ComplementCode complements one IUPAC code letter set-wise, preserving case. ok is false
// for letters that are not one of the 15 codes.
func ComplementCode(c byte) (byte, bool) {
	lower := c >= 'a' && c <= 'z'
	u := c
	if lower {
		u = c - 'a' + 'A'
	}
	s, ok := codeSet[u]
	if !ok {
		return 0, false
	}
	r := setCode[complementSet(s)]
	if lower {
		r = r - 'A' + 'a'
	}
	return r, true
}

// RevComp is the reverse complement of a string over the 15 IUPAC codes (either case).
// Letters outside the codes make it panic: callers only pass generated IUPAC strings.
func RevComp(s string) string {
	out := make([]byte, len(s))
	for i := 0; i < len(s); i++ {
		c, ok := ComplementCode(s[i])
		if !ok {
			panic("ref.RevComp: not an IUPAC code: " + string(s[i]))
		}
		out[len(s)-1-i] = c
	}
	return string(out)
}

// Comp is the complement without reversal.
func Comp(s string) string {
	out := make([]byte, len(s))
	for i := 0; i < len(s); i++ {
		c, ok := ComplementCode(s[i])
		if !ok {
			panic("ref.Comp: not an IUPAC code: " + string(s[i]))
		}
		out[i] = c
	}
	return string(out)
}

// Bases returns the concrete bases an IUPAC code (either case) stands for, in the order ACGT.
func Bases(c byte) string {
	if c >= 'a' && c <= 'z' {
		c = c - 'a' + 'A'
	}
	s := codeSet[c]
	var b strings.Builder
	for i, l := range "ACGT" {
		if s&(1<<i) != 0 {
			b.WriteRune(l)
		}
	}
	return b.String()
}

// Expand returns every concrete A/C/G/T sequence the IUPAC string stands for (upper case).
func Expand(s string) []string {
	out := []string{""}
	for i := 0; i < len(s); i++ {
		bs := Bases(s[i])
		next := make([]string, 0, len(out)*len(bs))
		for _, p := range out {
			for j := 0; j < len(bs); j++ {
				next = append(next, p+string(bs[j]))
			}
		}
		out = next
	}
	return out
}

// Reverse reverses a byte string.
func Reverse(s string) string {
	out := make([]byte, len(s))
	for i := 0; i < len(s); i++ {
		out[len(s)-1-i] = s[i]
	}
	return string(out)
}
