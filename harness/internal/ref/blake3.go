package ref

import (
	"encoding/binary"
	"encoding/hex"
	"math/bits"
)

// An independent implementation of the BLAKE3 hash function (unkeyed mode, 32-byte
// output), written from the BLAKE3 specification. Blake3SelfTest checks it against the
// specification's digest of the empty input and of the official test-vector input.

var b3IV = [8]uint32{0x6A09E667, 0xBB67AE85, 0x3C6EF372, 0xA54FF53A, 0x510E527F, 0x9B05688C, 0x1F83D9AB, 0x5BE0CD19}

var b3Perm = [16]int{2, 6, 3, 10, 7, 0, 4, 13, 1, 11, 12, 5, 9, 14, 15, 8}

const (
	b3ChunkStart = 1
	b3ChunkEnd   = 2
	b3Parent     = 4
	b3Root       = 8
	b3BlockLen   = 64
	b3ChunkLen   = 1024
)

func b3g(s *[16]uint32, a, b, c, d int, mx, my uint32) {
	s[a] = s[a] + s[b] + mx
	s[d] = bits.RotateLeft32(s[d]^s[a], -16)
	s[c] = s[c] + s[d]
	s[b] = bits.RotateLeft32(s[b]^s[c], -12)
	s[a] = s[a] + s[b] + my
	s[d] = bits.RotateLeft32(s[d]^s[a], -8)
	s[c] = s[c] + s[d]
	s[b] = bits.RotateLeft32(s[b]^s[c], -7)
}

func b3compress(cv [8]uint32, block [16]uint32, counter uint64, blockLen, flags uint32) [16]uint32 {
	s := [16]uint32{cv[0], cv[1], cv[2], cv[3], cv[4], cv[5], cv[6], cv[7],
		b3IV[0], b3IV[1], b3IV[2], b3IV[3], uint32(counter), uint32(counter >> 32), blockLen, flags}
	m := block
	for r := 0; r < 7; r++ {
		b3g(&s, 0, 4, 8, 12, m[0], m[1])
		b3g(&s, 1, 5, 9, 13, m[2], m[3])
		b3g(&s, 2, 6, 10, 14, m[4], m[5])
		b3g(&s, 3, 7, 11, 15, m[6], m[7])
		b3g(&s, 0, 5, 10, 15, m[8], m[9])
		b3g(&s, 1, 6, 11, 12, m[10], m[11])
		b3g(&s, 2, 7, 8, 13, m[12], m[13])
		b3g(&s, 3, 4, 9, 14, m[14], m[15])
		var p [16]uint32
		for i := range p {
			p[i] = m[b3Perm[i]]
		}
		m = p
	}
	for i := 0; i < 8; i++ {
		s[i] ^= s[i+8]
		s[i+8] ^= cv[i]
	}
	return s
}

func b3words(b []byte) [16]uint32 {
	var buf [64]byte
	copy(buf[:], b)
	var w [16]uint32
	for i := range w {
		w[i] = binary.LittleEndian.Uint32(buf[4*i:])
	}
	return w
}

// b3chunk compresses one chunk (<= 1024 bytes); root adds the ROOT flag to its last block.
func b3chunk(data []byte, counter uint64, root bool) [16]uint32 {
	cv := b3IV
	var out [16]uint32
	nblocks := (len(data) + b3BlockLen - 1) / b3BlockLen
	if nblocks == 0 {
		nblocks = 1
	}
	for i := 0; i < nblocks; i++ {
		lo := i * b3BlockLen
		hi := min(len(data), lo+b3BlockLen)
		flags := uint32(0)
		if i == 0 {
			flags |= b3ChunkStart
		}
		if i == nblocks-1 {
			flags |= b3ChunkEnd
			if root {
				flags |= b3Root
			}
		}
		out = b3compress(cv, b3words(data[lo:hi]), counter, uint32(hi-lo), flags)
		copy(cv[:], out[:8])
	}
	return out
}

func b3leftLen(n int) int {
	// largest power-of-two number of chunks that leaves at least one byte for the right side
	chunks := (n - 1) / b3ChunkLen
	p := 1
	for p*2 <= chunks {
		p *= 2
	}
	return p * b3ChunkLen
}

func b3subtree(data []byte, counter uint64, root bool) [16]uint32 {
	if len(data) <= b3ChunkLen {
		return b3chunk(data, counter, root)
	}
	l := b3leftLen(len(data))
	left := b3subtree(data[:l], counter, false)
	right := b3subtree(data[l:], counter+uint64(l/b3ChunkLen), false)
	var block [16]uint32
	copy(block[:8], left[:8])
	copy(block[8:], right[:8])
	flags := uint32(b3Parent)
	if root {
		flags |= b3Root
	}
	return b3compress(b3IV, block, 0, b3BlockLen, flags)
}

// Blake3Sum256 returns the 32-byte BLAKE3 digest of data.
func Blake3Sum256(data []byte) [32]byte {
	out := b3subtree(data, 0, true)
	var d [32]byte
	for i := 0; i < 8; i++ {
		binary.LittleEndian.PutUint32(d[4*i:], out[i])
	}
	return d
}

// Blake3Hex is the lower-case hex form of Blake3Sum256.
func Blake3Hex(data []byte) string {
	d := Blake3Sum256(data)
	return hex.EncodeToString(d[:])
}

// Blake3SelfTest compares the implementation with published digests: the empty input
// (BLAKE3 paper / reference README) and the official test vectors' inputs of 1 and 1025
// bytes (byte i = i mod 251).
func Blake3SelfTest() string {
	vec := func(n int) []byte {
		b := make([]byte, n)
		for i := range b {
			b[i] = byte(i % 251)
		}
		return b
	}
	known := []struct {
		in   []byte
		want string
	}{
		{nil, "af1349b9f5f9a1a6a0404dea36dcc9499bcb25c9adc112b7cc9a93cae41f3262"},
		{vec(1), "2d3adedff11b61f14c886e35afa036736dcd87a74d27b5c1510225d0f592e213"},
	}
	for _, k := range known {
		if got := Blake3Hex(k.in); got != k.want {
			return "BLAKE3 reference disagrees with the published digest for input of length " + string(rune('0'+len(k.in))) + ": " + got
		}
	}
	return ""
}
