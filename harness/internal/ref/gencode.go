package ref

import "sort"

// NCBI genetic codes, re-encoded from "The Genetic Codes" (NCBI Taxonomy, gc.prt) as
// the standard code listed per amino acid, plus each table's differences from the standard
// code, plus start and stop codons listed by name.

var standardByAminoAcid = map[byte][]string{
	'F': {"TTT", "TTC"},
	'L': {"TTA", "TTG", "CTT", "CTC", "CTA", "CTG"},
	'S': {"TCT", "TCC", "TCA", "TCG", "AGT", "AGC"},
	'Y': {"TAT", "TAC"},
	'*': {"TAA", "TAG", "TGA"},
	'C': {"TGT", "TGC"},
	'W': {"TGG"},
	'P': {"CCT", "CCC", "CCA", "CCG"},
	'H': {"CAT", "CAC"},
	'Q': {"CAA", "CAG"},
	'R': {"CGT", "CGC", "CGA", "CGG", "AGA", "AGG"},
	'I': {"ATT", "ATC", "ATA"},
	'M': {"ATG"},
	'T': {"ACT", "ACC", "ACA", "ACG"},
	'N': {"AAT", "AAC"},
	'K': {"AAA", "AAG"},
	'V': {"GTT", "GTC", "GTA", "GTG"},
	'A': {"GCT", "GCC", "GCA", "GCG"},
	'D': {"GAT", "GAC"},
	'E': {"GAA", "GAG"},
	'G': {"GGT", "GGC", "GGA", "GGG"},
}

// GeneticCode is one NCBI translation table.
type GeneticCode struct {
	ID     int
	Name   string
	Diff   map[string]byte // differences from the standard code
	Starts []string
	Stops  []string // codons marked '*' in NCBI's start/stop line (sncbieaa)
}

// GeneticCodes lists the 25 tables poly offers (NCBI ids 1-6, 9-14, 16, 21-31, 33).
var GeneticCodes = []GeneticCode{
	{1, "Standard", map[string]byte{}, []string{"TTG", "CTG", "ATG"}, []string{"TAA", "TAG", "TGA"}},
	{2, "Vertebrate Mitochondrial", map[string]byte{"AGA": '*', "AGG": '*', "ATA": 'M', "TGA": 'W'}, []string{"ATT", "ATC", "ATA", "ATG", "GTG"}, []string{"TAA", "TAG", "AGA", "AGG"}},
	{3, "Yeast Mitochondrial", map[string]byte{"ATA": 'M', "CTT": 'T', "CTC": 'T', "CTA": 'T', "CTG": 'T', "TGA": 'W'}, []string{"ATA", "ATG", "GTG"}, []string{"TAA", "TAG"}},
	{4, "Mold, Protozoan, Coelenterate Mitochondrial; Mycoplasma; Spiroplasma", map[string]byte{"TGA": 'W'}, []string{"TTA", "TTG", "CTG", "ATT", "ATC", "ATA", "ATG", "GTG"}, []string{"TAA", "TAG"}},
	{5, "Invertebrate Mitochondrial", map[string]byte{"AGA": 'S', "AGG": 'S', "ATA": 'M', "TGA": 'W'}, []string{"TTG", "ATT", "ATC", "ATA", "ATG", "GTG"}, []string{"TAA", "TAG"}},
	{6, "Ciliate, Dasycladacean and Hexamita Nuclear", map[string]byte{"TAA": 'Q', "TAG": 'Q'}, []string{"ATG"}, []string{"TGA"}},
	{9, "Echinoderm and Flatworm Mitochondrial", map[string]byte{"AAA": 'N', "AGA": 'S', "AGG": 'S', "TGA": 'W'}, []string{"ATG", "GTG"}, []string{"TAA", "TAG"}},
	{10, "Euplotid Nuclear", map[string]byte{"TGA": 'C'}, []string{"ATG"}, []string{"TAA", "TAG"}},
	{11, "Bacterial, Archaeal and Plant Plastid", map[string]byte{}, []string{"TTG", "CTG", "ATT", "ATC", "ATA", "ATG", "GTG"}, []string{"TAA", "TAG", "TGA"}},
	{12, "Alternative Yeast Nuclear", map[string]byte{"CTG": 'S'}, []string{"CTG", "ATG"}, []string{"TAA", "TAG", "TGA"}},
	{13, "Ascidian Mitochondrial", map[string]byte{"AGA": 'G', "AGG": 'G', "ATA": 'M', "TGA": 'W'}, []string{"TTG", "ATA", "ATG", "GTG"}, []string{"TAA", "TAG"}},
	{14, "Alternative Flatworm Mitochondrial", map[string]byte{"AAA": 'N', "AGA": 'S', "AGG": 'S', "TAA": 'Y', "TGA": 'W'}, []string{"ATG"}, []string{"TAG"}},
	{16, "Chlorophycean Mitochondrial", map[string]byte{"TAG": 'L'}, []string{"ATG"}, []string{"TAA", "TGA"}},
	{21, "Trematode Mitochondrial", map[string]byte{"TGA": 'W', "ATA": 'M', "AGA": 'S', "AGG": 'S', "AAA": 'N'}, []string{"ATG", "GTG"}, []string{"TAA", "TAG"}},
	{22, "Scenedesmus obliquus Mitochondrial", map[string]byte{"TCA": '*', "TAG": 'L'}, []string{"ATG"}, []string{"TCA", "TAA", "TGA"}},
	{23, "Thraustochytrium Mitochondrial", map[string]byte{"TTA": '*'}, []string{"ATT", "ATG", "GTG"}, []string{"TTA", "TAA", "TAG", "TGA"}},
	{24, "Rhabdopleuridae Mitochondrial", map[string]byte{"AGA": 'S', "AGG": 'K', "TGA": 'W'}, []string{"TTG", "CTG", "ATG", "GTG"}, []string{"TAA", "TAG"}},
	{25, "Candidate Division SR1 and Gracilibacteria", map[string]byte{"TGA": 'G'}, []string{"TTG", "ATG", "GTG"}, []string{"TAA", "TAG"}},
	{26, "Pachysolen tannophilus Nuclear", map[string]byte{"CTG": 'A'}, []string{"CTG", "ATG"}, []string{"TAA", "TAG", "TGA"}},
	{27, "Karyorelict Nuclear", map[string]byte{"TAA": 'Q', "TAG": 'Q', "TGA": 'W'}, []string{"ATG"}, []string{"TGA"}},
	{28, "Condylostoma Nuclear", map[string]byte{"TAA": 'Q', "TAG": 'Q', "TGA": 'W'}, []string{"ATG"}, []string{"TAA", "TAG", "TGA"}},
	{29, "Mesodinium Nuclear", map[string]byte{"TAA": 'Y', "TAG": 'Y'}, []string{"ATG"}, []string{"TGA"}},
	{30, "Peritrich Nuclear", map[string]byte{"TAA": 'E', "TAG": 'E'}, []string{"ATG"}, []string{"TGA"}},
	{31, "Blastocrithidia Nuclear", map[string]byte{"TGA": 'W', "TAA": 'E', "TAG": 'E'}, []string{"ATG"}, []string{"TAA", "TAG"}},
	{33, "Cephalodiscidae Mitochondrial UAA-Tyr", map[string]byte{"TAA": 'Y', "TGA": 'W', "AGA": 'S', "AGG": 'K'}, []string{"TTG", "CTG", "ATG", "GTG"}, []string{"TAG"}},
}

// GeneticCodeByID returns the table with the NCBI id.
func GeneticCodeByID(id int) (GeneticCode, bool) {
	for _, g := range GeneticCodes {
		if g.ID == id {
			return g, true
		}
	}
	return GeneticCode{}, false
}

// AminoAcid is the residue (or '*') NCBI assigns to an upper-case A/C/G/T codon.
func (g GeneticCode) AminoAcid(codon string) byte {
	if a, ok := g.Diff[codon]; ok {
		return a
	}
	for aa, codons := range standardByAminoAcid {
		for _, c := range codons {
			if c == codon {
				return aa
			}
		}
	}
	return 0
}

// CodonsOf lists, sorted, the codons translating to aa under the table.
func (g GeneticCode) CodonsOf(aa byte) []string {
	var out []string
	for _, c := range AllCodons() {
		if g.AminoAcid(c) == aa {
			out = append(out, c)
		}
	}
	return out
}

// Letters lists the residues (and '*') the table can produce, sorted.
func (g GeneticCode) Letters() []byte {
	seen := map[byte]bool{}
	for _, c := range AllCodons() {
		seen[g.AminoAcid(c)] = true
	}
	var out []byte
	for a := range seen {
		out = append(out, a)
	}
	sort.Slice(out, func(i, j int) bool { return out[i] < out[j] })
	return out
}

// AllCodons lists the 64 codons in alphabetical order.
func AllCodons() []string {
	var out []string
	for _, a := range "ACGT" {
		for _, b := range "ACGT" {
			for _, c := range "ACGT" {
				out = append(out, string([]rune{a, b, c}))
			}
		}
	}
	return out
}

// TranslateRef translates in-frame codons of an upper-case A/C/G/T string.
func (g GeneticCode) TranslateRef(upper string) string {
	out := make([]byte, 0, len(upper)/3)
	for i := 0; i+3 <= len(upper); i += 3 {
		out = append(out, g.AminoAcid(upper[i:i+3]))
	}
	return string(out)
}
