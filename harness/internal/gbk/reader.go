package gbk

import (
	"fmt"
	"strconv"
	"strings"

	"github.com/TimothyStiles/poly"
	"verifharness/internal/insdc"
)

// Read is the harness's independent GenBank reader. It is tolerant about columns (keyword =
// first token of a line that starts in column 1; sub keyword = token of a line indented by two
// to four spaces; continuation = any deeper indented line, trimmed and joined by one space;
// feature keys indented by five spaces, qualifiers deeper and starting with '/') and strict
// about structure: one LOCUS line, FEATURES before ORIGIN, ORIGIN lines numbered 1, 61, 121, ...
// with blocks of ten letters separated by single spaces, and a "//" terminator.
func Read(text string) (Expected, error) {
	e := Expected{Other: map[string]string{}}
	lines := strings.Split(strings.TrimSuffix(text, "\n"), "\n")
	indent := func(s string) int { return len(s) - len(strings.TrimLeft(s, " ")) }
	i := 0
	// collect a block: first line's text after the keyword plus deeper-indented lines
	collect := func(minIndent int) string {
		parts := []string{}
		first := strings.TrimSpace(lines[i])
		if sp := strings.IndexByte(first, ' '); sp >= 0 {
			parts = append(parts, strings.TrimSpace(first[sp:]))
		}
		i++
		for i < len(lines) && lines[i] != "" && indent(lines[i]) >= minIndent {
			parts = append(parts, strings.TrimSpace(lines[i]))
			i++
		}
		return strings.TrimSpace(strings.Join(parts, " "))
	}
	seenLocus, seenFeatures, seenOrigin, seenEnd := false, false, false, false
	for i < len(lines) {
		line := lines[i]
		if line == "" {
			i++
			continue
		}
		if line == "//" {
			seenEnd = true
			i++
			if i != len(lines) {
				return e, fmt.Errorf("text after the // terminator")
			}
			break
		}
		if indent(line) != 0 {
			return e, fmt.Errorf("line %d is indented but does not continue a block: %q", i+1, line)
		}
		key := strings.Fields(line)[0]
		switch key {
		case "LOCUS":
			if seenLocus {
				return e, fmt.Errorf("second LOCUS line")
			}
			seenLocus = true
			f := strings.Fields(line)
			if len(f) < 4 {
				return e, fmt.Errorf("short LOCUS line %q", line)
			}
			e.Locus.Name = f[1]
			e.Locus.SequenceLength = f[2]
			if f[3] != "bp" && f[3] != "aa" {
				return e, fmt.Errorf("LOCUS line has %q where bp is expected", f[3])
			}
			for _, tok := range f[4:] {
				switch {
				case tok == "circular":
					e.Locus.Circular = true
				case tok == "linear":
					e.Locus.Linear = true
				case len(tok) == 11 && tok[2] == '-' && tok[6] == '-':
					e.Locus.ModificationDate = tok
				case len(tok) == 3 && strings.ToUpper(tok) == tok && e.Locus.MoleculeType != "" && tok != "DNA" && tok != "RNA":
					e.Locus.GenbankDivision = tok
				case e.Locus.MoleculeType == "":
					e.Locus.MoleculeType = tok
				default:
					return e, fmt.Errorf("unexpected token %q on the LOCUS line %q", tok, line)
				}
			}
			i++
		case "DEFINITION":
			e.Definition = collect(5)
		case "ACCESSION":
			e.Accession = collect(5)
		case "VERSION":
			e.Version = collect(5)
		case "KEYWORDS":
			e.Keywords = collect(5)
		case "SOURCE":
			e.Source = collect(5)
			if i < len(lines) && strings.HasPrefix(strings.TrimSpace(lines[i]), "ORGANISM") && indent(lines[i]) >= 1 && indent(lines[i]) <= 4 {
				e.Organism = collect(5)
			}
		case "REFERENCE":
			ref := poly.Reference{}
			rest := strings.TrimSpace(strings.TrimPrefix(line, "REFERENCE"))
			f := strings.Fields(rest)
			if len(f) == 0 {
				return e, fmt.Errorf("REFERENCE line without a number")
			}
			ref.Index = f[0]
			ref.Range = strings.TrimSpace(strings.TrimPrefix(rest, f[0]))
			i++
			for i < len(lines) && lines[i] != "" && indent(lines[i]) >= 1 && indent(lines[i]) <= 4 {
				sub := strings.Fields(lines[i])[0]
				v := collect(5)
				switch sub {
				case "AUTHORS":
					ref.Authors = v
				case "TITLE":
					ref.Title = v
				case "JOURNAL":
					ref.Journal = v
				case "PUBMED":
					ref.PubMed = v
				case "REMARK":
					ref.Remark = v
				case "CONSRTM", "MEDLINE":
				default:
					return e, fmt.Errorf("unknown reference sub keyword %q", sub)
				}
			}
			e.References = append(e.References, ref)
		case "FEATURES":
			if seenFeatures {
				return e, fmt.Errorf("second FEATURES line")
			}
			seenFeatures = true
			i++
			for i < len(lines) && lines[i] != "" && indent(lines[i]) >= 1 {
				if ind := indent(lines[i]); ind > 8 {
					return e, fmt.Errorf("line %d: qualifier or continuation line without a feature: %q", i+1, lines[i])
				}
				f := strings.Fields(lines[i])
				if len(f) != 2 {
					return e, fmt.Errorf("line %d: feature line must hold a key and a location: %q", i+1, lines[i])
				}
				ef := ExpectedFeature{Type: f[0], Location: f[1], Attributes: map[string]string{}}
				i++
				// location continuation lines
				for i < len(lines) && indent(lines[i]) > 8 && !strings.HasPrefix(strings.TrimSpace(lines[i]), "/") {
					ef.Location += strings.TrimSpace(lines[i])
					i++
				}
				// qualifiers
				for i < len(lines) && indent(lines[i]) > 8 && strings.HasPrefix(strings.TrimSpace(lines[i]), "/") {
					q := strings.TrimSpace(lines[i])
					i++
					open := strings.Count(q, "\"")%2 == 1
					isTranslation := strings.HasPrefix(q, "/translation=")
					for i < len(lines) && indent(lines[i]) > 8 && (open || !strings.HasPrefix(strings.TrimSpace(lines[i]), "/")) {
						if isTranslation {
							q += strings.TrimSpace(lines[i])
						} else {
							q += " " + strings.TrimSpace(lines[i])
						}
						open = strings.Count(q, "\"")%2 == 1
						i++
					}
					if open {
						return e, fmt.Errorf("qualifier with an unclosed quote: %q", q)
					}
					k, v := q[1:], ""
					if eq := strings.IndexByte(q, '='); eq >= 0 {
						k, v = q[1:eq], q[eq+1:]
						if len(v) >= 2 && v[0] == '"' && v[len(v)-1] == '"' {
							v = v[1 : len(v)-1]
						}
					}
					if _, dup := ef.Attributes[k]; dup {
						return e, fmt.Errorf("qualifier /%s occurs twice in one feature", k)
					}
					ef.Attributes[k] = strings.TrimSpace(v)
				}
				e.Features = append(e.Features, ef)
			}
		case "ORIGIN":
			if !seenFeatures {
				return e, fmt.Errorf("ORIGIN before FEATURES")
			}
			seenOrigin = true
			i++
			var seq strings.Builder
			for i < len(lines) && lines[i] != "//" {
				l := lines[i]
				if l == "" {
					i++
					continue
				}
				f := strings.Fields(l)
				num, err := strconv.Atoi(f[0])
				if err != nil || num != seq.Len()+1 {
					return e, fmt.Errorf("ORIGIN line %q is numbered %q, expected %d", l, f[0], seq.Len()+1)
				}
				if len(l) < 10 || strings.TrimLeft(l[:9], " ") != f[0] || l[9] != ' ' {
					return e, fmt.Errorf("ORIGIN line %q: the number must be right-justified in nine columns and followed by one space", l)
				}
				if strings.Join(f[1:], " ") != l[10:] {
					return e, fmt.Errorf("ORIGIN line %q: blocks must be separated by single spaces", l)
				}
				for bi, blk := range f[1:] {
					if len(blk) > 10 || (bi < len(f)-2 && len(blk) != 10) || len(f[1:]) > 6 {
						return e, fmt.Errorf("ORIGIN line %q: blocks of ten letters, six per line", l)
					}
					for _, ch := range blk {
						if !(ch >= 'a' && ch <= 'z' || ch >= 'A' && ch <= 'Z') {
							return e, fmt.Errorf("ORIGIN line %q holds a non-letter", l)
						}
					}
					seq.WriteString(blk)
				}
				if n := len(strings.Join(f[1:], "")); n != 60 && i+1 < len(lines) && lines[i+1] != "//" && lines[i+1] != "" {
					return e, fmt.Errorf("ORIGIN line %q holds %d letters but is not the last one", l, n)
				}
				i++
			}
			e.Sequence = seq.String()
		default:
			if strings.ToUpper(key) != key {
				return e, fmt.Errorf("line %d: unknown keyword %q", i+1, key)
			}
			if _, dup := e.Other[key]; dup {
				return e, fmt.Errorf("keyword %s occurs twice", key)
			}
			e.Other[key] = collect(5)
		}
	}
	if !seenLocus || !seenFeatures || !seenOrigin || !seenEnd {
		return e, fmt.Errorf("record lacks one of LOCUS / FEATURES / ORIGIN / // (%v %v %v %v)", seenLocus, seenFeatures, seenOrigin, seenEnd)
	}
	return e, nil
}

// ExpectedOf renders a poly.Sequence as the values a GenBank record can carry. Features
// without cached location text get an empty Location and their tree in Trees.
func ExpectedOf(x poly.Sequence) (Expected, []poly.Location) {
	e := Expected{Sequence: x.Sequence, Locus: x.Meta.Locus, Definition: x.Meta.Definition, Accession: x.Meta.Accession, Version: x.Meta.Version,
		Keywords: x.Meta.Keywords, Source: x.Meta.Source, Organism: x.Meta.Organism, Other: map[string]string{}}
	e.Locus.SequenceCoding = ""
	e.References = append(e.References, x.Meta.References...)
	for k, v := range x.Meta.Other {
		e.Other[k] = v
	}
	var trees []poly.Location
	for _, f := range x.Features {
		ef := ExpectedFeature{Type: f.Type, Location: f.GbkLocationString, Attributes: map[string]string{}}
		for k, v := range f.Attributes {
			ef.Attributes[k] = v
		}
		e.Features = append(e.Features, ef)
		trees = append(trees, f.SequenceLocation)
	}
	return e, trees
}

// SameTree compares two locations by what they denote: the same stranded spans in the same reading order with the
// same partial markers (insdc.StructureSegments). The nesting through which that is said is not compared: a writer may
// print complement(join(a,b)) as join(complement(b),complement(a)), splice a join into its parent or drop a
// complement of a complement, and the location is still the one it was given.
func SameTree(a, b poly.Location) bool {
	return insdc.SameSegments(insdc.StructureSegments(a), insdc.StructureSegments(b))
}

// TreeOfText parses location text with the strict INSDC parser and returns the tree in poly's representation.
func TreeOfText(text string) (poly.Location, error) {
	n, err := insdc.ParseStrict(text)
	if err != nil {
		return poly.Location{}, err
	}
	return n.Structure(), nil
}

// CompareExpected compares what a reader recovered (got) with what the record holds (want).
// A want feature with an empty Location is compared on the tree in trees (same index).
func CompareExpected(what string, got, want Expected, trees []poly.Location) error {
	fake := poly.Sequence{Sequence: got.Sequence}
	fake.Meta.Locus = got.Locus
	fake.Meta.Definition, fake.Meta.Accession, fake.Meta.Version, fake.Meta.Keywords, fake.Meta.Source, fake.Meta.Organism = got.Definition, got.Accession, got.Version, got.Keywords, got.Source, got.Organism
	fake.Meta.References = got.References
	fake.Meta.Other = got.Other
	w2 := want
	w2.Features = nil
	for i, f := range want.Features {
		if i >= len(got.Features) {
			break
		}
		if f.Location == "" && trees != nil {
			t, err := TreeOfText(got.Features[i].Location)
			if err != nil {
				return fmt.Errorf("%s: feature %d (%s): written location %q is not valid INSDC syntax: %v", what, i, f.Type, got.Features[i].Location, err)
			}
			if !SameTree(t, trees[i]) {
				return fmt.Errorf("%s: feature %d (%s): written location %q denotes %+v, the record holds %+v", what, i, f.Type, got.Features[i].Location, t, trees[i])
			}
			f.Location = got.Features[i].Location
		}
		w2.Features = append(w2.Features, f)
	}
	if len(want.Features) != len(got.Features) {
		w2.Features = want.Features
	}
	for _, f := range got.Features {
		fake.Features = append(fake.Features, poly.Feature{Type: f.Type, GbkLocationString: f.Location, Attributes: f.Attributes})
	}
	return Compare(what, fake, w2)
}
