// Package gbk is the harness's abstract GenBank record, its independent NCBI-layout writer,
// its generators and (reader.go) its independent tolerant reader.
package gbk

import (
	"fmt"
	"strings"

	"pgregory.net/rapid"
	"verifharness/internal/insdc"
	"verifharness/internal/vk"
)

// Block is a keyword block: its text is a list of words (re-joined by single spaces).
type Block struct {
	Key   string   `json:"key"`
	Words []string `json:"words"`
}

func (b Block) Text() string { return strings.Join(b.Words, " ") }

type Reference struct {
	Range   string   `json:"range"` // e.g. "(bases 1 to 100)"
	Authors []string `json:"authors,omitempty"`
	Title   []string `json:"title,omitempty"`
	Journal []string `json:"journal,omitempty"`
	PubMed  string   `json:"pubmed,omitempty"`
	Remark  []string `json:"remark,omitempty"`
}

type Qualifier struct {
	Key   string   `json:"key"`
	Kind  string   `json:"kind"` // text (quoted words) | number (unquoted) | flag (no value) | translation (quoted, hard-wrapped)
	Words []string `json:"words,omitempty"`
}

// Value is the qualifier's value as the record states it.
func (q Qualifier) Value() string {
	switch q.Kind {
	case "flag":
		return ""
	case "translation":
		return strings.Join(q.Words, "")
	}
	return strings.Join(q.Words, " ")
}

type Feature struct {
	Key        string      `json:"key"`
	Loc        insdc.Node  `json:"location"`
	Qualifiers []Qualifier `json:"qualifiers,omitempty"`
}

type Record struct {
	Name       string      `json:"name"`
	Molecule   string      `json:"molecule"`
	Circular   bool        `json:"circular"`
	Division   string      `json:"division"`
	Date       string      `json:"date"`
	Definition []string    `json:"definition"`
	Accession  []string    `json:"accession"`
	Version    []string    `json:"version"`
	DBLink     []string    `json:"dblink,omitempty"` // extra keyword placed after VERSION when non-empty
	Keywords   []string    `json:"keywords"`
	Source     []string    `json:"source"`
	Organism   []string    `json:"organism"` // organism name words
	Lineage    []string    `json:"lineage"`  // lineage words (written on the lines after the name)
	References []Reference `json:"references,omitempty"`
	Extra      []Block     `json:"extra,omitempty"` // extra top-level keywords after the references (COMMENT, PRIMARY, ...)
	Features   []Feature   `json:"features,omitempty"`
	Contig     []string    `json:"contig,omitempty"` // CONTIG block, written where GenBank puts it: after the feature table, before ORIGIN
	Seq        vk.SeqSpec  `json:"seq"`
}

// wrap lays words out greedily into lines of at most width characters.
func wrap(words []string, width int) []string {
	var lines []string
	cur := ""
	for _, w := range words {
		switch {
		case cur == "":
			cur = w
		case len(cur)+1+len(w) <= width:
			cur += " " + w
		default:
			lines = append(lines, cur)
			cur = w
		}
	}
	return append(lines, cur)
}

func block(b *strings.Builder, key string, words []string) {
	for i, l := range wrap(words, 68) {
		if i == 0 {
			fmt.Fprintf(b, "%-12s%s\n", key, l)
		} else {
			fmt.Fprintf(b, "%-12s%s\n", "", l)
		}
	}
}

const featIndent = "                     " // 21 columns

// LocationLines breaks a location after commas so that no line exceeds 58 characters (where possible).
func LocationLines(text string) []string {
	var lines []string
	rest := text
	for len(rest) > 58 {
		cut := strings.LastIndex(rest[:58], ",")
		if cut < 0 {
			break
		}
		lines = append(lines, rest[:cut+1])
		rest = rest[cut+1:]
	}
	return append(lines, rest)
}

func qualifierLines(q Qualifier) []string {
	switch q.Kind {
	case "flag":
		return []string{"/" + q.Key}
	case "number":
		return []string{"/" + q.Key + "=" + q.Value()}
	case "translation":
		s := "/" + q.Key + "=\"" + q.Value() + "\""
		var lines []string
		for len(s) > 58 {
			lines = append(lines, s[:58])
			s = s[58:]
		}
		return append(lines, s)
	}
	words := append([]string{}, q.Words...)
	if len(words) == 0 {
		return []string{"/" + q.Key + "=\"\""}
	}
	words[0] = "/" + q.Key + "=\"" + words[0]
	words[len(words)-1] += "\""
	return wrap(words, 58)
}

// Write lays the record out as NCBI does (column layout of the GenBank flat file format),
// terminated by "//\n".
func (r Record) Write() string {
	var b strings.Builder
	seq := r.Seq.String()
	topo := "linear"
	if r.Circular {
		topo = "circular"
	}
	fmt.Fprintf(&b, "LOCUS       %-16s %11d bp    %-6s  %-8s %s %s\n", r.Name, len(seq), r.Molecule, topo, r.Division, r.Date)
	block(&b, "DEFINITION", r.Definition)
	block(&b, "ACCESSION", r.Accession)
	block(&b, "VERSION", r.Version)
	if len(r.DBLink) > 0 {
		block(&b, "DBLINK", r.DBLink)
	}
	block(&b, "KEYWORDS", r.Keywords)
	block(&b, "SOURCE", r.Source)
	// organism name on the ORGANISM line(s), lineage on the following lines
	for i, l := range wrap(r.Organism, 68) {
		if i == 0 {
			fmt.Fprintf(&b, "  %-10s%s\n", "ORGANISM", l)
		} else {
			fmt.Fprintf(&b, "%-12s%s\n", "", l)
		}
	}
	if len(r.Lineage) > 0 {
		for _, l := range wrap(r.Lineage, 68) {
			fmt.Fprintf(&b, "%-12s%s\n", "", l)
		}
	}
	for i, ref := range r.References {
		fmt.Fprintf(&b, "%-12s%d  %s\n", "REFERENCE", i+1, ref.Range)
		sub := func(key string, words []string) {
			for j, l := range wrap(words, 68) {
				if j == 0 {
					fmt.Fprintf(&b, "%-12s%s\n", key, l)
				} else {
					fmt.Fprintf(&b, "%-12s%s\n", "", l)
				}
			}
		}
		if len(ref.Authors) > 0 {
			sub("  AUTHORS", ref.Authors)
		}
		if len(ref.Title) > 0 {
			sub("  TITLE", ref.Title)
		}
		if len(ref.Journal) > 0 {
			sub("  JOURNAL", ref.Journal)
		}
		if ref.PubMed != "" {
			sub("   PUBMED", []string{ref.PubMed})
		}
		if len(ref.Remark) > 0 {
			sub("  REMARK", ref.Remark)
		}
	}
	for _, e := range r.Extra {
		block(&b, e.Key, e.Words)
	}
	b.WriteString("FEATURES             Location/Qualifiers\n")
	for _, f := range r.Features {
		for i, l := range LocationLines(f.Loc.Text()) {
			if i == 0 {
				fmt.Fprintf(&b, "     %-16s%s\n", f.Key, l)
			} else {
				b.WriteString(featIndent + l + "\n")
			}
		}
		for _, q := range f.Qualifiers {
			for _, l := range qualifierLines(q) {
				b.WriteString(featIndent + l + "\n")
			}
		}
	}
	if len(r.Contig) > 0 {
		block(&b, "CONTIG", r.Contig)
	}
	b.WriteString("ORIGIN\n")
	for i := 0; i < len(seq); i += 60 {
		fmt.Fprintf(&b, "%9d", i+1)
		for j := i; j < min(i+60, len(seq)); j += 10 {
			b.WriteString(" " + seq[j:min(j+10, i+60, len(seq))])
		}
		b.WriteString("\n")
	}
	b.WriteString("//\n")
	return b.String()
}

// FlatHeader is a 10-line header as found in NCBI's flat-file dumps.
func FlatHeader(name string, loci, bases int) string {
	return fmt.Sprintf("%-10s          Genetic Sequence Data Bank\n                          April 15 2021\n\n                NCBI-GenBank Flat File Release 243.0\n\n                          Synthetic Sequences\n\n%8d loci, %11d bases, from %8d reported sequences\n\n\n", name, loci, bases, loci)
}

// ---------------------------------------------------------------------------------------
// generators

var hostile = []string{
	"and/or", "a=b", "/note=abc", "/pseudo", "=", "/", "//x", "x//y", "1..5", "(bases", "join(1..2,3..4)", "complement(3..4)", "<1..>9",
	"TITLE", "AUTHORS", "JOURNAL", "PUBMED", "REMARK", "ORIGIN", "REFERENCE", "FEATURES", "ORGANISM", "SOURCE", "LOCUS", "DEFINITION", "COMMENT",
	"DNA", "RNA", "PRI", "circular", "linear", "10", "25", "bp", "aa", "http://www.ncbi.nlm.nih.gov/x?y=1&z=2", "5'-3'", "it's", "[a;b]", "{x}", "100%", "a\\b", "~tilde~", "'quoted'", "\\u003c", "\\u0026", "\\n", "\\\\", "&lt;", "&amp;", "%3C", "$1", "%s",
}

// Word draws one word: printable ASCII without '"' and without spaces, usually at most 30 characters.
func Word(t *rapid.T, name string) string {
	var w string
	switch rapid.IntRange(0, 6).Draw(t, name+"_kind") {
	case 6:
		w = rapid.SampledFrom(vk.Placeholders).Draw(t, name+"_placeholder") // ".", "-", "unknown", "NaN", "bp" ...: words like any other
		if w == "" {
			w = "."
		}
	case 0:
		w = rapid.SampledFrom(hostile).Draw(t, name+"_hostile")
	case 1:
		w = rapid.StringMatching(`[!#-~]{1,30}`).Draw(t, name+"_ascii")
	default:
		w = rapid.StringMatching(`[A-Za-z][A-Za-z0-9,.;:()-]{0,11}`).Draw(t, name+"_plain")
	}
	// one word in forty is longer than a line of the flat file has room for (a URL with its query string, a DOI, a
	// systematic chemical name): it stays in one piece on an over-long line of its own, as NCBI writes it
	if rapid.IntRange(0, 39).Draw(t, name+"_long_word") == 0 {
		w = "https://example.org/" + strings.Repeat(strings.Trim(w, "/")+"/", rapid.IntRange(40, 200).Draw(t, name+"_long_word_len")/(len(w)+1)+1) + "x"
	}
	if strings.HasSuffix(w, "//") {
		w += "_" // no line other than a record terminator ends in "//" (stated in the property's quantifier)
	}
	return w
}

// Words draws lo..hi words; long lists force wrapping onto continuation lines.
func Words(t *rapid.T, name string, lo, hi int) []string {
	if lo <= 1 && rapid.IntRange(0, 11).Draw(t, name+"_only_a_placeholder") == 0 {
		// the whole field is one of the spellings of "nothing here" (KEYWORDS ".", a title "-", an author "unknown")
		w := rapid.SampledFrom(vk.Placeholders).Draw(t, name+"_placeholder_word")
		if w == "" {
			w = "."
		}
		return []string{w}
	}
	n := lo
	switch rapid.IntRange(0, 3).Draw(t, name+"_size") {
	case 0:
		n = rapid.IntRange(lo, hi).Draw(t, name+"_n_long")
	default:
		n = rapid.IntRange(lo, min(hi, max(lo, 8))).Draw(t, name+"_n")
	}
	ws := make([]string, n)
	for i := range ws {
		ws[i] = Word(t, name)
	}
	return ws
}

var Divisions = []string{"PRI", "ROD", "MAM", "VRT", "INV", "PLN", "BCT", "VRL", "PHG", "SYN", "UNA", "EST", "PAT", "STS", "GSS", "HTG", "HTC", "ENV"}
var months = []string{"JAN", "FEB", "MAR", "APR", "MAY", "JUN", "JUL", "AUG", "SEP", "OCT", "NOV", "DEC"}
var FeatureKeys = []string{"source", "gene", "CDS", "mRNA", "tRNA", "rRNA", "misc_feature", "exon", "intron", "regulatory", "rep_origin", "primer_bind", "sig_peptide", "mat_peptide", "misc_binding", "repeat_region", "variation", "5'UTR", "3'UTR", "ncRNA", "mobile_element", "protein_bind", "stem_loop", "misc_RNA", "assembly_gap", "D-loop", "misc_difference"}
var qualifierKeys = []string{"note", "product", "gene", "locus_tag", "db_xref", "function", "label", "organism", "mol_type", "standard_name", "inference", "experiment", "allele", "old_locus_tag", "protein_id"}
var ExtraKeys = []string{"COMMENT", "PRIMARY", "PROJECT", "SEGMENT", "NID"}

func drawQualifier(t *rapid.T, name string, used map[string]bool) Qualifier {
	kind := rapid.SampledFrom([]string{"text", "text", "text", "text", "number", "flag", "translation"}).Draw(t, name+"_kind")
	if kind == "translation" && used["translation"] {
		kind = "text" // only /translation itself is written as an unbroken residue string
	}
	var key string
	switch kind {
	case "number":
		key = rapid.SampledFrom([]string{"codon_start", "transl_table", "number", "estimated_length"}).Draw(t, name+"_key")
	case "flag":
		key = rapid.SampledFrom([]string{"pseudo", "partial", "ribosomal_slippage", "trans_splicing", "environmental_sample"}).Draw(t, name+"_key")
	case "translation":
		key = "translation"
	default:
		key = rapid.SampledFrom(qualifierKeys).Draw(t, name+"_key")
	}
	if used[key] && kind != "translation" && rapid.Bool().Draw(t, name+"_same_key_other_case") {
		// the same qualifier again under a key that differs in letter case only (/note and /Note, /EC_number and
		// /ec_number): two keys to a case-sensitive map, one to anything that folds case
		if v := strings.ToUpper(key[:1]) + key[1:]; !used[v] {
			key = v
		} else if v := strings.ToUpper(key); !used[v] {
			key = v
		}
	}
	for used[key] { // distinct keys by construction (the API is a map)
		key += "_2"
	}
	used[key] = true
	q := Qualifier{Key: key, Kind: kind}
	switch kind {
	case "text":
		q.Words = Words(t, name+"_value", 0, 40)
	case "number":
		q.Words = []string{fmt.Sprint(rapid.IntRange(1, 25).Draw(t, name+"_number"))}
	case "translation":
		n := rapid.IntRange(1, 400).Draw(t, name+"_residues")
		q.Words = []string{vk.Fill(rapid.Uint64().Draw(t, name+"_fill"), n, "ACDEFGHIKLMNPQRSTVWY")}
	}
	return q
}

// Draw draws an abstract record. maxSeq bounds the sequence length; maxFeatures the feature count.
func Draw(t *rapid.T, name string, maxSeq, maxFeatures int) Record {
	r := Record{}
	r.Name = rapid.StringMatching(`[a-z][a-z0-9_.]{1,15}`).Draw(t, name+"_locus")
	if rapid.IntRange(0, 14).Draw(t, name+"_locus_placeholder") == 0 {
		r.Name = rapid.SampledFrom(vk.Placeholders).Draw(t, name+"_locus_word")
	}
	r.Molecule = rapid.SampledFrom([]string{"DNA", "DNA", "mRNA", "tRNA", "rRNA"}).Draw(t, name+"_molecule")
	r.Circular = rapid.Bool().Draw(t, name+"_circular")
	r.Division = rapid.SampledFrom(Divisions).Draw(t, name+"_division")
	r.Date = fmt.Sprintf("%02d-%s-%04d", rapid.IntRange(1, 28).Draw(t, name+"_day"), rapid.SampledFrom(months).Draw(t, name+"_month"), rapid.IntRange(1982, 2026).Draw(t, name+"_year"))
	// sequence: sizes that matter for the LOCUS line (1..99 letters) are frequent
	alpha := rapid.SampledFrom([]string{"acgt", "acgt", "acgtn", "ACGT", "acgtrykmswbdhvn"}).Draw(t, name+"_alphabet")
	switch rapid.IntRange(0, 5).Draw(t, name+"_seq_class") {
	case 0:
		r.Seq = vk.DrawSeq(t, name+"_seq", alpha, 1, 99)
	default:
		r.Seq = vk.DrawSeq(t, name+"_seq", alpha, 1, maxSeq)
	}
	n := len(r.Seq.String())
	r.Definition = Words(t, name+"_definition", 1, 60)
	r.Accession = Words(t, name+"_accession", 1, 3)
	r.Version = Words(t, name+"_version", 1, 2)
	if rapid.IntRange(0, 3).Draw(t, name+"_has_dblink") == 0 {
		r.DBLink = Words(t, name+"_dblink", 1, 6)
	}
	r.Keywords = Words(t, name+"_keywords", 1, 30)
	r.Source = Words(t, name+"_source", 1, 20)
	r.Organism = Words(t, name+"_organism", 1, 6)
	r.Lineage = Words(t, name+"_lineage", 0, 30)
	nref := rapid.IntRange(0, 5).Draw(t, name+"_n_references")
	for i := 0; i < nref; i++ {
		rn := fmt.Sprintf("%s_ref%d", name, i)
		ref := Reference{Range: fmt.Sprintf("(bases 1 to %d)", n)}
		if rapid.IntRange(0, 5).Draw(t, rn+"_sites") == 0 {
			ref.Range = "(sites)"
		}
		if rapid.IntRange(0, 5).Draw(t, rn+"_has_authors") != 0 {
			ref.Authors = Words(t, rn+"_authors", 1, 40)
		}
		if rapid.IntRange(0, 5).Draw(t, rn+"_has_title") != 0 {
			ref.Title = Words(t, rn+"_title", 1, 40)
		}
		if rapid.IntRange(0, 5).Draw(t, rn+"_has_journal") != 0 {
			ref.Journal = Words(t, rn+"_journal", 1, 30)
		}
		if rapid.Bool().Draw(t, rn+"_has_pubmed") {
			ref.PubMed = fmt.Sprint(rapid.IntRange(1, 40000000).Draw(t, rn+"_pubmed"))
		}
		if rapid.IntRange(0, 3).Draw(t, rn+"_has_remark") == 0 {
			ref.Remark = Words(t, rn+"_remark", 1, 25)
		}
		r.References = append(r.References, ref)
	}
	nextra := rapid.IntRange(0, 3).Draw(t, name+"_n_extra")
	if rapid.IntRange(0, 3).Draw(t, name+"_has_contig") == 0 {
		r.Contig = Words(t, name+"_contig", 1, 30)
	}
	usedExtra := map[string]bool{}
	for i := 0; i < nextra; i++ {
		k := rapid.SampledFrom(ExtraKeys).Draw(t, fmt.Sprintf("%s_extra%d_key", name, i))
		if usedExtra[k] {
			continue
		}
		usedExtra[k] = true
		r.Extra = append(r.Extra, Block{Key: k, Words: Words(t, fmt.Sprintf("%s_extra%d", name, i), 1, 80)})
	}
	var nf int
	switch rapid.IntRange(0, 5).Draw(t, name+"_features_class") {
	case 0:
		nf = 0
	case 1:
		nf = rapid.IntRange(min(9, maxFeatures), maxFeatures).Draw(t, name+"_n_features_many")
	default:
		nf = rapid.IntRange(1, min(8, maxFeatures)).Draw(t, name+"_n_features")
	}
	for i := 0; i < nf; i++ {
		fn := fmt.Sprintf("%s_f%d", name, i)
		f := Feature{Key: rapid.SampledFrom(FeatureKeys).Draw(t, fn+"_key")}
		depth := rapid.SampledFrom([]int{0, 0, 1, 1, 2, 3, 4}).Draw(t, fn+"_loc_depth")
		f.Loc = insdc.Draw(t, fn+"_loc", n, depth)
		nq := rapid.SampledFrom([]int{0, 0, 1, 1, 2, 3, 5, 8}).Draw(t, fn+"_n_qualifiers")
		used := map[string]bool{}
		for j := 0; j < nq; j++ {
			f.Qualifiers = append(f.Qualifiers, drawQualifier(t, fmt.Sprintf("%s_q%d", fn, j), used))
		}
		r.Features = append(r.Features, f)
	}
	return r
}
