package gbk

import (
	"fmt"
	"sort"
	"strings"

	"github.com/TimothyStiles/poly"
)

// Expected is what a parser must return for the record, read off the abstract record.
type Expected struct {
	Sequence   string
	Locus      poly.Locus // SequenceCoding is not part of the statement and is left empty
	Definition string
	Accession  string
	Version    string
	Keywords   string
	Source     string
	Organism   string
	References []poly.Reference
	Other      map[string]string
	Features   []ExpectedFeature
}

type ExpectedFeature struct {
	Type       string
	Location   string
	Attributes map[string]string
}

func (r Record) Expected() Expected {
	seq := r.Seq.String()
	e := Expected{Sequence: seq, Other: map[string]string{}}
	e.Locus = poly.Locus{Name: r.Name, SequenceLength: fmt.Sprint(len(seq)), MoleculeType: r.Molecule, GenbankDivision: r.Division, ModificationDate: r.Date, Circular: r.Circular, Linear: !r.Circular}
	j := func(w []string) string { return strings.Join(w, " ") }
	e.Definition, e.Accession, e.Version, e.Keywords, e.Source = j(r.Definition), j(r.Accession), j(r.Version), j(r.Keywords), j(r.Source)
	e.Organism = j(append(append([]string{}, r.Organism...), r.Lineage...))
	for i, ref := range r.References {
		e.References = append(e.References, poly.Reference{Index: fmt.Sprint(i + 1), Range: ref.Range, Authors: j(ref.Authors), Title: j(ref.Title), Journal: j(ref.Journal), PubMed: ref.PubMed, Remark: j(ref.Remark)})
	}
	if len(r.DBLink) > 0 {
		e.Other["DBLINK"] = j(r.DBLink)
	}
	for _, x := range r.Extra {
		e.Other[x.Key] = x.Text()
	}
	if len(r.Contig) > 0 {
		e.Other["CONTIG"] = j(r.Contig)
	}
	for _, f := range r.Features {
		ef := ExpectedFeature{Type: f.Key, Location: f.Loc.Text(), Attributes: map[string]string{}}
		for _, q := range f.Qualifiers {
			ef.Attributes[q.Key] = q.Value()
		}
		e.Features = append(e.Features, ef)
	}
	return e
}

func short(s string) string {
	if len(s) > 240 {
		return fmt.Sprintf("%s…[%d]…%s", s[:150], len(s), s[len(s)-60:])
	}
	return s
}

// Compare checks a parse result against the expectation, field by field.
func Compare(what string, got poly.Sequence, want Expected) error {
	if got.Sequence != want.Sequence {
		g, w := got.Sequence, want.Sequence
		k := 0
		for k < len(g) && k < len(w) && g[k] == w[k] {
			k++
		}
		return fmt.Errorf("%s: sequence has %d letters, the record states %d (first difference at %d)", what, len(g), len(w), k)
	}
	l, w := got.Meta.Locus, want.Locus
	if l.Name != w.Name || l.SequenceLength != w.SequenceLength || l.MoleculeType != w.MoleculeType || l.GenbankDivision != w.GenbankDivision || l.ModificationDate != w.ModificationDate || l.Circular != w.Circular || l.Linear != w.Linear {
		return fmt.Errorf("%s: LOCUS parsed as {name %q, length %q, molecule %q, division %q, date %q, circular %v, linear %v}; the record states {%q, %q, %q, %q, %q, %v, %v}", what,
			l.Name, l.SequenceLength, l.MoleculeType, l.GenbankDivision, l.ModificationDate, l.Circular, l.Linear, w.Name, w.SequenceLength, w.MoleculeType, w.GenbankDivision, w.ModificationDate, w.Circular, w.Linear)
	}
	for _, f := range []struct{ name, got, want string }{
		{"DEFINITION", got.Meta.Definition, want.Definition}, {"ACCESSION", got.Meta.Accession, want.Accession}, {"VERSION", got.Meta.Version, want.Version},
		{"KEYWORDS", got.Meta.Keywords, want.Keywords}, {"SOURCE", got.Meta.Source, want.Source}, {"ORGANISM", got.Meta.Organism, want.Organism}} {
		if f.got != f.want {
			return fmt.Errorf("%s: %s parsed as %q; the record states %q", what, f.name, short(f.got), short(f.want))
		}
	}
	if len(got.Meta.References) != len(want.References) {
		return fmt.Errorf("%s: %d references parsed, the record has %d", what, len(got.Meta.References), len(want.References))
	}
	for i, wr := range want.References {
		if gr := got.Meta.References[i]; gr != wr {
			return fmt.Errorf("%s: reference %d parsed as %+v; the record states %+v", what, i+1, gr, wr)
		}
	}
	for k, v := range want.Other {
		if gv, ok := got.Meta.Other[k]; !ok || gv != v {
			return fmt.Errorf("%s: keyword block %s parsed as %q (present %v); the record states %q", what, k, short(gv), ok, short(v))
		}
	}
	for k := range got.Meta.Other {
		if _, ok := want.Other[k]; !ok {
			return fmt.Errorf("%s: unexpected keyword block %q = %q", what, k, short(got.Meta.Other[k]))
		}
	}
	if len(got.Features) != len(want.Features) {
		var types []string
		for _, f := range got.Features {
			types = append(types, f.Type+" "+short(f.GbkLocationString))
		}
		return fmt.Errorf("%s: %d features parsed, the record has %d (parsed: %v)", what, len(got.Features), len(want.Features), types)
	}
	for i, wf := range want.Features {
		gf := got.Features[i]
		if gf.Type != wf.Type {
			return fmt.Errorf("%s: feature %d has key %q, the record states %q", what, i, gf.Type, wf.Type)
		}
		if gf.GbkLocationString != wf.Location {
			return fmt.Errorf("%s: feature %d (%s) has location text %q, the record states %q", what, i, wf.Type, short(gf.GbkLocationString), short(wf.Location))
		}
		var keys []string
		for k := range wf.Attributes {
			keys = append(keys, k)
		}
		sort.Strings(keys)
		for _, k := range keys {
			if gv, ok := gf.Attributes[k]; !ok || gv != wf.Attributes[k] {
				return fmt.Errorf("%s: feature %d (%s) qualifier /%s parsed as %q (present %v); the record states %q", what, i, wf.Type, k, short(gv), ok, short(wf.Attributes[k]))
			}
		}
		for k, v := range gf.Attributes {
			if _, ok := wf.Attributes[k]; !ok {
				return fmt.Errorf("%s: feature %d (%s) has an unexpected qualifier %q = %q", what, i, wf.Type, k, short(v))
			}
		}
	}
	return nil
}

// SameParsed compares two parse results (ParentSequence ignored, nil and empty collections equal).
func SameParsed(what string, a, b poly.Sequence) error {
	if a.Sequence != b.Sequence {
		return fmt.Errorf("%s: sequences differ (%d vs %d letters)", what, len(a.Sequence), len(b.Sequence))
	}
	ma, mb := a.Meta, b.Meta
	if ma.Locus != mb.Locus || ma.Definition != mb.Definition || ma.Accession != mb.Accession || ma.Version != mb.Version || ma.Keywords != mb.Keywords || ma.Source != mb.Source || ma.Organism != mb.Organism {
		return fmt.Errorf("%s: metadata differ: %+v vs %+v", what, ma.Locus, mb.Locus)
	}
	if len(ma.References) != len(mb.References) {
		return fmt.Errorf("%s: %d vs %d references", what, len(ma.References), len(mb.References))
	}
	for i := range ma.References {
		if ma.References[i] != mb.References[i] {
			return fmt.Errorf("%s: reference %d differs: %+v vs %+v", what, i, ma.References[i], mb.References[i])
		}
	}
	if len(ma.Other) != len(mb.Other) {
		return fmt.Errorf("%s: keyword blocks differ: %v vs %v", what, ma.Other, mb.Other)
	}
	for k, v := range ma.Other {
		if mb.Other[k] != v {
			return fmt.Errorf("%s: keyword block %s differs: %q vs %q", what, k, short(v), short(mb.Other[k]))
		}
	}
	if len(a.Features) != len(b.Features) {
		return fmt.Errorf("%s: %d vs %d features", what, len(a.Features), len(b.Features))
	}
	for i := range a.Features {
		fa, fb := a.Features[i], b.Features[i]
		if fa.Type != fb.Type || fa.GbkLocationString != fb.GbkLocationString || len(fa.Attributes) != len(fb.Attributes) {
			return fmt.Errorf("%s: feature %d differs: %s %s %v vs %s %s %v", what, i, fa.Type, short(fa.GbkLocationString), fa.Attributes, fb.Type, short(fb.GbkLocationString), fb.Attributes)
		}
		for k, v := range fa.Attributes {
			if bv, ok := fb.Attributes[k]; !ok || bv != v {
				return fmt.Errorf("%s: feature %d qualifier %s differs: %q vs %q", what, i, k, short(v), short(bv))
			}
		}
	}
	return nil
}
