package gbk

import (
	"testing"

	"pgregory.net/rapid"
)

// harness self-test: the independent reader recovers every abstract record from the harness's own writer.
func TestReaderOnOwnWriter(t *testing.T) {
	rapid.Check(t, func(rt *rapid.T) {
		r := Draw(rt, "r", 500, 12)
		back, err := Read(r.Write())
		if err != nil {
			rt.Fatalf("%v\n%s", err, r.Write())
		}
		if err := CompareExpected("reader on own writer", back, r.Expected(), nil); err != nil {
			rt.Fatalf("%v\n%s", err, r.Write())
		}
	})
}
