package gbk

import "github.com/TimothyStiles/poly"

// Vandalise writes into everything a parsed record lets its holder write into - qualifier maps, extra keyword
// blocks, the elements of the feature, reference and sub-location slices (appending to each as well) - the way a
// caller annotating, trimming or re-using a result would. A result belongs to the caller who got it: what other
// results, earlier or later, hold must not change with it.
func Vandalise(s *poly.Sequence) {
	if s.Meta.Other == nil {
		s.Meta.Other = map[string]string{}
	}
	s.Meta.Other["VERIF"] = "written by the caller"
	for k := range s.Meta.Other {
		s.Meta.Other[k] += " (edited)"
	}
	for i := range s.Meta.References {
		s.Meta.References[i].Title += " (edited)"
		s.Meta.References[i].Authors = "somebody else"
	}
	s.Meta.References = append(s.Meta.References, poly.Reference{Index: "99", Title: "appended by the caller"})
	for i := range s.Features {
		f := &s.Features[i]
		if f.Attributes == nil {
			f.Attributes = map[string]string{}
		}
		for k := range f.Attributes {
			f.Attributes[k] = "overwritten by the caller"
		}
		f.Attributes["verif_vandal"] = "added by the caller"
		vandaliseLocation(&f.SequenceLocation)
		f.Type += "_edited"
	}
	s.Features = append(s.Features, poly.Feature{Type: "appended_by_the_caller"})
}

func vandaliseLocation(l *poly.Location) {
	l.Start += 7
	l.End += 11
	for i := range l.SubLocations {
		vandaliseLocation(&l.SubLocations[i])
	}
	if len(l.SubLocations) > 0 {
		l.SubLocations[0], l.SubLocations[len(l.SubLocations)-1] = l.SubLocations[len(l.SubLocations)-1], l.SubLocations[0]
		l.SubLocations = append(l.SubLocations, poly.Location{Start: 1, End: 2})
	}
}

// VandaliseLocation is Vandalise for a bare location tree.
func VandaliseLocation(l *poly.Location) { vandaliseLocation(l) }
