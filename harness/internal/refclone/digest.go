// Package refclone is the harness's reference model of Type IIS digestion and ring
// enumeration (C09, C10). It works on circular coordinates and never doubles the sequence.
package refclone

import (
	"fmt"
	"sort"
	"strings"

	"verifharness/internal/ref"
)

// Enzyme geometry: the enzyme cuts Skip bases after the 3' end of its recognition site and
// leaves an overhang of OverhangLen bases.
type Enzyme struct {
	Name        string `json:"name"`
	Site        string `json:"site"`
	Skip        int    `json:"skip"`
	OverhangLen int    `json:"overhang_len"`
}

var BuiltIn = map[string]Enzyme{
	"BsaI":  {"BsaI", "GGTCTC", 1, 4},   // GGTCTC(1/5)
	"BbsI":  {"BbsI", "GAAGAC", 2, 4},   // GAAGAC(2/6)
	"BtgZI": {"BtgZI", "GCGATG", 10, 4}, // GCGATG(10/14)
}

// Cut is one cut: the overhang occupies [Start, Start+OverhangLen) (mod n when circular).
type Cut struct {
	Start     int
	Forward   bool
	SiteStart int
}

// Fragment as poly reports it.
type Fragment struct {
	Forward, Interior, Reverse string
	// bookkeeping of the reference (not compared): start of the forward site that opens the
	// fragment, in the coordinates of the scanned sequence, and total length incl. both overhangs
	FwdSiteStart int
	Length       int
}

func (f Fragment) String() string { return f.Forward + "|" + f.Interior + "|" + f.Reverse }

// Layout is the result of the reference's scan of a sequence.
type Layout struct {
	N        int
	Circular bool
	Sites    []Cut // every occurrence (cuts that leave a linear sequence included, marked by Start out of range)
	Cuts     []Cut // existing cuts, ordered by Start
	Valid    bool
	Why      string // why the layout is outside the property's domain
}

func mod(a, n int) int { return ((a % n) + n) % n }

// occurrences lists the start positions of w in s (circularly if circ), overlapping ones included.
func occurrences(s, w string, circ bool) []int {
	var out []int
	n := len(s)
	text := s
	if circ {
		text = s + s[:min(n, len(w)-1)]
	}
	for i := 0; i+len(w) <= len(text) && i < n; i++ {
		if text[i:i+len(w)] == w {
			out = append(out, i)
		}
	}
	return out
}

type interval struct{ start, length int }

// disjoint reports whether the intervals are pairwise disjoint (on a circle of size n if circ).
func disjoint(iv []interval, n int, circ bool) bool {
	if circ {
		total := 0
		for _, x := range iv {
			total += x.length
		}
		if total > n {
			return false
		}
		cover := make(map[int]bool, total)
		for _, x := range iv {
			for d := 0; d < x.length; d++ {
				p := mod(x.start+d, n)
				if cover[p] {
					return false
				}
				cover[p] = true
			}
		}
		return true
	}
	s := append([]interval{}, iv...)
	sort.Slice(s, func(i, j int) bool { return s[i].start < s[j].start })
	for i := 1; i < len(s); i++ {
		if s[i-1].start+s[i-1].length > s[i].start {
			return false
		}
	}
	return true
}

// Scan finds every site occurrence and derives the cuts by geometry. With mixedOverlap, a forward and a
// reverse occurrence may share letters (BtgZI: CATCGCGATG holds CATCGC and GCGATG) - each is a site of its own and
// cuts where its geometry says; C10's domain excludes such layouts, C09's designed carriers do not.
func Scan(seq string, circ bool, e Enzyme, mixedOverlap ...bool) Layout {
	u := strings.ToUpper(seq)
	n := len(u)
	site := strings.ToUpper(e.Site)
	rsite := ref.RevComp(site)
	L := Layout{N: n, Circular: circ, Valid: true}
	if site == rsite {
		L.Valid, L.Why = false, "palindromic recognition site"
		return L
	}
	var siteIv, fwdIv, revIv, cutIv []interval
	for _, i := range occurrences(u, site, circ) {
		c := Cut{Start: i + len(site) + e.Skip, Forward: true, SiteStart: i}
		siteIv, fwdIv = append(siteIv, interval{i, len(site)}), append(fwdIv, interval{i, len(site)})
		L.Sites = append(L.Sites, c)
	}
	for _, j := range occurrences(u, rsite, circ) {
		c := Cut{Start: j - e.Skip - e.OverhangLen, Forward: false, SiteStart: j}
		siteIv, revIv = append(siteIv, interval{j, len(site)}), append(revIv, interval{j, len(site)})
		L.Sites = append(L.Sites, c)
	}
	if len(mixedOverlap) > 0 && mixedOverlap[0] {
		if !disjoint(fwdIv, n, circ) || !disjoint(revIv, n, circ) {
			L.Valid, L.Why = false, "site occurrences of one orientation overlap"
			return L
		}
	} else if !disjoint(siteIv, n, circ) {
		L.Valid, L.Why = false, "site occurrences overlap"
		return L
	}
	for _, c := range L.Sites {
		if circ {
			c.Start = mod(c.Start, n)
			L.Cuts = append(L.Cuts, c)
			cutIv = append(cutIv, interval{c.Start, e.OverhangLen})
		} else if c.Start >= 0 && c.Start+e.OverhangLen <= n {
			L.Cuts = append(L.Cuts, c)
			cutIv = append(cutIv, interval{c.Start, e.OverhangLen})
		}
	}
	if !disjoint(cutIv, n, circ) {
		L.Valid, L.Why = false, "cut regions overlap"
		return L
	}
	sort.Slice(L.Cuts, func(i, j int) bool { return L.Cuts[i].Start < L.Cuts[j].Start })
	return L
}

// Digest returns the directional fragments: for every forward cut whose next cut is a reverse
// cut, the stretch from the start of the forward overhang to the end of the reverse overhang.
// ok is false when the layout is outside the property's domain (see Layout.Why).
func Digest(seq string, circ bool, e Enzyme, mixedOverlap ...bool) (frags []Fragment, L Layout) {
	L = Scan(seq, circ, e, mixedOverlap...)
	if !L.Valid {
		return nil, L
	}
	u := strings.ToUpper(seq)
	n, h := len(u), e.OverhangLen
	k := len(L.Cuts)
	for i, c := range L.Cuts {
		if !c.Forward {
			continue
		}
		var next Cut
		if i+1 < k {
			next = L.Cuts[i+1]
		} else if circ && k >= 2 {
			next = L.Cuts[0]
		} else {
			continue
		}
		if next.Forward {
			continue
		}
		var length int
		if circ {
			length = mod(next.Start+h-c.Start, n)
			if length == 0 {
				length = n
			}
		} else {
			length = next.Start + h - c.Start
		}
		if length < 2*h {
			L.Valid, L.Why = false, "paired cuts closer than two overhang lengths"
			return nil, L
		}
		var body string
		if circ {
			d := u + u
			body = d[c.Start : c.Start+length]
		} else {
			body = u[c.Start : c.Start+length]
		}
		frags = append(frags, Fragment{Forward: body[:h], Interior: body[h : length-h], Reverse: body[length-h:], FwdSiteStart: c.SiteStart, Length: length})
	}
	return frags, L
}

// SameMultiset compares two fragment lists as multisets.
func SameMultiset(a, b []Fragment) bool {
	if len(a) != len(b) {
		return false
	}
	x, y := make([]string, len(a)), make([]string, len(b))
	for i := range a {
		x[i], y[i] = a[i].String(), b[i].String()
	}
	sort.Strings(x)
	sort.Strings(y)
	for i := range x {
		if x[i] != y[i] {
			return false
		}
	}
	return true
}

// Show renders a fragment list in sorted order.
func Show(a []Fragment) string {
	x := make([]string, len(a))
	for i := range a {
		s := a[i].String()
		if len(s) > 70 {
			s = fmt.Sprintf("%s…(%d)…%s", s[:30], len(s), s[len(s)-20:])
		}
		x[i] = s
	}
	sort.Strings(x)
	return "[" + strings.Join(x, " ") + "]"
}

// OriginInsideSpan reports whether, after rotating the circular sequence so that it starts at
// original index r, the stored origin lies strictly inside the span from a site's first base to
// the far end of its cut (used for labelling: these are the rotations the doubled-sequence
// bookkeeping has to get right).
func OriginInsideSpan(L Layout, e Enzyme, siteLen, r int) bool {
	n := L.N
	for _, c := range L.Sites {
		var a, length int
		if c.Forward {
			a, length = c.SiteStart, siteLen+e.Skip+e.OverhangLen
		} else {
			a, length = c.SiteStart-e.Skip-e.OverhangLen, siteLen+e.Skip+e.OverhangLen
		}
		// the origin lies between original indices r-1 and r; strictly inside iff both belong to the span
		d := mod(r-a, n)
		if d >= 1 && d <= length-1 {
			return true
		}
	}
	return false
}

// InDoublingLossZone is the class of (circular part, rotation) pairs of known finding K-C10-1,
// stated by mechanism: poly searches the stored sequence written twice, [0,2n). A fragment can
// only be reported if, with i the start of its forward site in stored coordinates (0 <= i < n),
// the forward overhang starts at i+|site|+skip <= n and the reverse site that closes the fragment
// ends at or before 2n. The function reports whether some expected fragment violates that for
// the rotation that makes original index r the first stored base.
func InDoublingLossZone(frags []Fragment, n int, e Enzyme, siteLen, r int) bool {
	for _, f := range frags {
		i := mod(f.FwdSiteStart-r, n)
		p := i + siteLen + e.Skip
		if p > n || p+f.Length+e.Skip+siteLen > 2*n {
			return true
		}
	}
	return false
}
