package refclone

import "testing"

// harness self-test on hand-computed digestions: BsaI is GGTCTC(1/5).
func TestDigestByHand(t *testing.T) {
	bsai := BuiltIn["BsaI"]
	// forward site, 1 skipped base, overhang AATG ... overhang GCTT, 1 skipped base, reverse site
	seq := "TTTT" + "GGTCTC" + "A" + "AATG" + "CCCCCC" + "GCTT" + "T" + "GAGACC" + "TTTT"
	frags, L := Digest(seq, false, bsai)
	if !L.Valid || len(frags) != 1 || frags[0].String() != "AATG|CCCCCC|GCTT" {
		t.Fatalf("linear: %v %+v", frags, L)
	}
	// the same as a plasmid, at every rotation
	for r := 0; r < len(seq); r++ {
		rot := seq[r:] + seq[:r]
		frags, L := Digest(rot, true, bsai)
		if !L.Valid || len(frags) != 1 || frags[0].String() != "AATG|CCCCCC|GCTT" {
			t.Fatalf("circular rotation %d: %v %+v", r, frags, L)
		}
	}
	// reverse complement of the whole part gives the reverse-complemented fragment
	frags, _ = Digest("AAAAGGTCTCAAAGCGGGGGGCATTTGAGACCAAAA", false, bsai)
	if len(frags) != 1 || frags[0].String() != "AAGC|GGGGGG|CATT" {
		t.Fatalf("reverse complemented part: %v", frags)
	}
	// a forward site too close to the end of a linear part makes no cut
	if frags, _ := Digest("GAGACCTTTTTTTTGGTCTCAAA", false, bsai); len(frags) != 0 {
		t.Fatalf("cut beyond the end: %v", frags)
	}
}

func TestRingsByHand(t *testing.T) {
	f := []Frag{{"AAAC", "tt", "AACC"}, {"AACC", "gg", "ACCC"}, {"ACCC", "cc", "AAAC"}, {"AACC", "aa", "ACCC"}, {"AAAC", "", "GGGG"}}
	rings := Rings(f)
	if len(rings) != 2 {
		t.Fatalf("want 2 rings, got %v", rings)
	}
	// flipping a fragment does not change the rings
	f[1] = f[1].flipped()
	if r2 := Rings(f); len(r2) != 2 || r2[0] != rings[0] || r2[1] != rings[1] {
		t.Fatalf("flipped: %v vs %v", r2, rings)
	}
}
