package refclone

import (
	"sort"
	"strings"

	"verifharness/internal/ref"
)

// Frag is a linear fragment with sticky ends, as poly's clone.Fragment.
type Frag struct {
	Fwd string `json:"fwd"`
	Seq string `json:"seq"`
	Rev string `json:"rev"`
}

func (f Frag) flipped() Frag {
	return Frag{Fwd: ref.RevComp(f.Rev), Seq: ref.RevComp(f.Seq), Rev: ref.RevComp(f.Fwd)}
}

// CanonicalRing is the representative of a circular double-stranded molecule: the lesser of
// the least rotations of the two strands.
func CanonicalRing(s string) string {
	return ref.Canonical(strings.ToUpper(s), true, true, ref.RevComp)
}

// Rings enumerates every simple ring of compatible fragments - each junction overhang (on
// either strand) used at most once - and returns the canonical forms, sorted and without
// duplicates. Fragments may be used in either orientation.
func Rings(frags []Frag) []string {
	up := make([]Frag, len(frags))
	for i, f := range frags {
		up[i] = Frag{strings.ToUpper(f.Fwd), strings.ToUpper(f.Seq), strings.ToUpper(f.Rev)}
	}
	oriented := make([]Frag, 0, 2*len(up))
	for _, f := range up {
		oriented = append(oriented, f, f.flipped())
	}
	found := map[string]bool{}
	var dfs func(start, end, seq string, visited map[string]bool)
	dfs = func(start, end, seq string, visited map[string]bool) {
		if end == start {
			found[CanonicalRing(seq)] = true
			return
		}
		for _, g := range oriented {
			if g.Fwd != end {
				continue
			}
			e2 := g.Rev
			if e2 != start && (visited[e2] || visited[ref.RevComp(e2)]) {
				continue
			}
			visited[e2] = true
			dfs(start, e2, seq+end+g.Seq, visited)
			delete(visited, e2)
		}
	}
	for _, f := range up {
		visited := map[string]bool{f.Fwd: true, f.Rev: true}
		dfs(f.Fwd, f.Rev, f.Fwd+f.Seq, visited)
	}
	out := make([]string, 0, len(found))
	for k := range found {
		out = append(out, k)
	}
	sort.Strings(out)
	return out
}
