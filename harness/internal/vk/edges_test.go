package vk

import (
	"sort"
	"testing"
)

func TestEdgeSizes(t *testing.T) {
	has := func(list []int, v int) bool { i := sort.SearchInts(list, v); return i < len(list) && list[i] == v }
	e := EdgeSizes(0, 10000)
	for _, v := range []int{0, 1, 61, 71, 121, 1023, 1024, 1025, 2048, 4096, 4097, 9216, 9999, 10000} {
		if !has(e, v) {
			t.Errorf("EdgeSizes(0,10000) lacks %d", v)
		}
	}
	e = EdgeSizes(1, 100000)
	for _, v := range []int{32767, 32768, 32769, 65535, 65536, 65537, 99961, 100000} {
		if !has(e, v) {
			t.Errorf("EdgeSizes(1,100000) lacks %d", v)
		}
	}
	if !sort.IntsAreSorted(e) || e[0] < 1 || e[len(e)-1] > 100000 {
		t.Errorf("not sorted or out of range")
	}
	t.Logf("%d and %d edges", len(EdgeSizes(0, 10000)), len(e))
}

func TestCollidingPairs(t *testing.T) {
	p := CollidingPairs()
	byName := map[string]int{}
	for _, x := range p {
		if x.A == x.B || len(x.A) != len(x.B) {
			t.Errorf("bad pair %+v", x)
		}
		byName[x.Checksum]++
	}
	if len(byName) < 9 {
		t.Errorf("collisions found for %d of 9 checksums: %v", len(byName), byName)
	}
	t.Logf("%d pairs: %v", len(p), byName)
}
