package vk

import (
	"bytes"
	"compress/gzip"
	"fmt"
	"hash/crc32"
	"time"
)

// Gzip compresses b into a valid gzip file in one of six forms, chosen from the content (so that a case always meets
// the same form): one member at the default level; one member at BestSpeed with name, comment and time in its header;
// stored (uncompressed) blocks; block-compressed like bgzip (a member with an extra header field for every 65280
// bytes and an empty member at the end); two members (cat a.gz b.gz); many small members.
func Gzip(b []byte) []byte {
	return GzipForm(b, int((crc32.ChecksumIEEE(b)+uint32(len(b)))%6))
}

// GzipForm is Gzip with the form given (0..5).
func GzipForm(b []byte, form int) []byte {
	var buf bytes.Buffer
	member := func(part []byte, level int, hdr func(*gzip.Writer)) {
		w, _ := gzip.NewWriterLevel(&buf, level)
		if hdr != nil {
			hdr(w)
		}
		_, _ = w.Write(part)
		_ = w.Close()
	}
	blocks := func(size int, level int, hdr func(*gzip.Writer), emptyEnd bool) {
		for i := 0; i < len(b); i += size {
			member(b[i:min(i+size, len(b))], level, hdr)
		}
		if emptyEnd || len(b) == 0 {
			member(nil, level, hdr)
		}
	}
	Count(fmt.Sprintf("gzip form %d", form), 1)
	switch form {
	case 1:
		member(b, gzip.BestSpeed, func(w *gzip.Writer) {
			w.Name, w.Comment, w.ModTime = "x.fasta", "written by the harness", time.Unix(1600000000, 0)
		})
	case 2:
		member(b, gzip.NoCompression, nil)
	case 3:
		blocks(65280, gzip.DefaultCompression, func(w *gzip.Writer) { w.Extra = []byte{'B', 'C', 2, 0, 0xff, 0xff} }, true)
	case 4:
		cut := len(b) / 3
		member(b[:cut], gzip.DefaultCompression, nil)
		member(b[cut:], gzip.BestCompression, nil)
	case 5:
		blocks(map[bool]int{true: 97, false: 4099}[len(b) < 20000], gzip.HuffmanOnly, nil, false)
	default:
		member(b, gzip.DefaultCompression, nil)
	}
	return buf.Bytes()
}
