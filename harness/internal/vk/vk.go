// Package vk is the shared kit of the verification harness: it runs a sub-check
// (generator + classifier + oracle) under rapid or over an enumerated space, records
// what was actually explored, writes the failing (shrunk) case as a replay file and
// replays saved cases without going through rapid.
//
// Everything here is driven by environment variables set by the /verif/verif driver:
//
//	VERIF_TIER          quick | thorough
//	VERIF_SEED          integer seed of the whole run (only recorded here; the driver
//	                    derives -rapid.seed from it)
//	VERIF_SHARD/SHARDS  which slice of an enumerated space this process owns
//	VERIF_OUT           directory receiving <sub>.<shard>.json (+ .hashes) statistics
//	VERIF_REPLAY_DIR    directory receiving the failing case of a sub-check
//	VERIF_PROPERTY      property id (for file names)
//	VERIF_KNOWN_ACTIVE  comma separated ids of known findings whose witness still fails
//	VERIF_REPLAY        path of a saved case (TestReplay)
package vk

import (
	"bytes"
	"encoding/binary"
	"encoding/json"
	"errors"
	"fmt"
	"hash/fnv"
	"math"
	"os"
	"os/exec"
	"path/filepath"
	"runtime"
	"runtime/debug"
	"sort"
	"strconv"
	"strings"
	"sync"
	"syscall"
	"testing"
	"time"

	"pgregory.net/rapid"
)

// Sub is one sub-check of a property.
type Sub[C any] struct {
	Name string
	// Gen draws a case; every random choice comes from rapid.
	Gen func(t *rapid.T) C
	// Check runs poly and the oracle on the case; nil means the property held.
	Check func(c C) error
	// Labels classifies the case (for the histogram in the evidence).
	Labels func(c C) []string
	// NonTrivial implements the property's stated non-triviality rule.
	NonTrivial func(c C) bool
	// Sample renders a case for the evidence file (default: the case itself, abbreviated).
	Sample func(c C) any
	// PreRecord makes the kit write the case to disk before Check runs, for checks in
	// which poly can kill the process from a goroutine of its own.
	PreRecord bool
}

type replayer struct {
	run func(raw json.RawMessage) error
}

var (
	regMu    sync.Mutex
	registry = map[string]replayer{}
)

// Register makes a sub-check replayable by name.
func Register[C any](s *Sub[C]) *Sub[C] {
	regMu.Lock()
	defer regMu.Unlock()
	registry[s.Name] = replayer{run: func(raw json.RawMessage) error {
		var c C
		if err := json.Unmarshal(raw, &c); err != nil {
			return fmt.Errorf("HARNESS: cannot decode case: %v", err)
		}
		return SafeCheck(s, c)
	}}
	return s
}

// SavedCase is the on-disk form of a case (replay files, known-finding witnesses).
type SavedCase struct {
	Property string          `json:"property"`
	Sub      string          `json:"sub"`
	Error    string          `json:"error,omitempty"`
	Note     string          `json:"note,omitempty"`
	Case     json.RawMessage `json:"case"`
	// Preceding holds the (small) cases this process evaluated just before the failing one, oldest
	// first: Replay runs them first, so that a failure that needs an earlier call (state kept between
	// calls by the code under test) still reproduces from the file.
	Preceding []json.RawMessage `json:"preceding,omitempty"`
}

// recent is the ring of the last cases evaluated by this process (rapid sub-checks only).
var recent struct {
	mu    sync.Mutex
	cases [][]byte
}

const recentKeep, recentMaxBytes = 6, 48 << 10

func remember(raw []byte) {
	if len(raw) > recentMaxBytes {
		return
	}
	recent.mu.Lock()
	recent.cases = append(recent.cases, raw)
	if len(recent.cases) > recentKeep+1 {
		recent.cases = recent.cases[1:]
	}
	recent.mu.Unlock()
}

// ---------------------------------------------------------------------------------
// environment

func Tier() string {
	if os.Getenv("VERIF_TIER") == "thorough" {
		return "thorough"
	}
	return "quick"
}

func Thorough() bool { return Tier() == "thorough" }

// Pick returns q in the quick tier and th in the thorough tier.
func Pick[T any](q, th T) T {
	if Thorough() {
		return th
	}
	return q
}

func envInt(name string, def int) int {
	if v, err := strconv.Atoi(os.Getenv(name)); err == nil {
		return v
	}
	return def
}

func Shard() int  { return envInt("VERIF_SHARD", 0) }
func Shards() int { return max(1, envInt("VERIF_SHARDS", 1)) }

// Seed is VERIF_SEED (default 1); used only for deterministic choices outside rapid
// such as which slice of a huge enumeration a quick run samples.
func Seed() uint64 {
	if v, err := strconv.ParseUint(os.Getenv("VERIF_SEED"), 10, 64); err == nil {
		return v
	}
	return 1
}

// KnownActive reports whether the witness of known finding id still fails on this tree
// (decided by the driver before the sub-checks run).
func KnownActive(id string) bool {
	for _, k := range strings.Split(os.Getenv("VERIF_KNOWN_ACTIVE"), ",") {
		if k == id {
			return true
		}
	}
	return false
}

// RepoPath resolves a path inside the checkout of poly under test (normally /repo).
func RepoPath(rel string) string {
	base := os.Getenv("VERIF_REPO")
	if base == "" {
		base = "/repo"
	}
	return filepath.Join(base, rel)
}

// WorkDir is a per-process scratch directory under /verif/.work.
func WorkDir() string {
	base := os.Getenv("VERIF_WORK")
	if base == "" {
		base = "/verif/.work"
	}
	d := filepath.Join(base, "tmp", fmt.Sprintf("p%d", os.Getpid()))
	_ = os.MkdirAll(d, 0o755)
	return d
}

// ---------------------------------------------------------------------------------
// recording

type recorder struct {
	mu          sync.Mutex
	sub         string
	kind        string
	evaluations int64
	nontrivial  int64 // counted (enumeration: distinct by construction)
	hashes      map[uint64]struct{}
	labels      map[string]int64
	excluded    map[string]int64
	samples     []any
	sampleEvery int64
	spaces      []string
	exhaustive  bool
	failed      int
	notes       []string
	start       time.Time
}

func newRecorder(sub, kind string) *recorder {
	return &recorder{sub: sub, kind: kind, hashes: map[uint64]struct{}{}, labels: map[string]int64{}, excluded: map[string]int64{}, sampleEvery: 1, start: time.Now()}
}

var (
	curMu sync.Mutex
	cur   *recorder
)

// CountExcluded is called by generators when they steer away from a class because of an
// active known finding.
func CountExcluded(label string) {
	curMu.Lock()
	r := cur
	curMu.Unlock()
	if r != nil {
		r.mu.Lock()
		r.excluded[label]++
		r.mu.Unlock()
	}
}

// Note attaches a free-text note to the evidence of the running sub-check.
func Note(format string, a ...any) {
	curMu.Lock()
	r := cur
	curMu.Unlock()
	if r != nil {
		r.mu.Lock()
		if len(r.notes) < 20 {
			r.notes = append(r.notes, fmt.Sprintf(format, a...))
		}
		r.mu.Unlock()
	}
}

// Count adds n to a label of the running sub-check (for counters that are not per case).
func Count(label string, n int64) {
	curMu.Lock()
	r := cur
	curMu.Unlock()
	if r != nil {
		r.mu.Lock()
		r.labels[label] += n
		r.mu.Unlock()
	}
}

func hashCase(c any) (uint64, []byte) {
	b, err := json.Marshal(c)
	if err != nil {
		b = []byte(fmt.Sprintf("%#v", c))
	}
	h := fnv.New64a()
	h.Write(b)
	return h.Sum64(), b
}

func observe[C any](r *recorder, s *Sub[C], c C, hashed bool) {
	nt := s.NonTrivial == nil || s.NonTrivial(c)
	var labels []string
	if s.Labels != nil {
		labels = s.Labels(c)
	}
	r.mu.Lock()
	defer r.mu.Unlock()
	r.evaluations++
	for _, l := range labels {
		r.labels[l]++
	}
	if hashed {
		h, raw := hashCase(c)
		remember(raw)
		if nt {
			r.hashes[h] = struct{}{}
		}
	} else if nt {
		r.nontrivial++
	}
	// samples: the first two, then sparser and sparser (bounded at 6), preferring non-trivial ones.
	if len(r.samples) < 6 && (nt || r.evaluations <= 2) && r.evaluations%r.sampleEvery == 0 {
		if s.Sample != nil {
			r.samples = append(r.samples, Abbrev(s.Sample(c)))
		} else {
			r.samples = append(r.samples, Abbrev(c))
		}
		r.sampleEvery *= 7
	}
}

// Abbrev renders a case for the evidence file with long strings shortened.
func Abbrev(c any) any {
	b, err := json.Marshal(c)
	if err != nil {
		return fmt.Sprintf("%v", c)
	}
	var v any
	if json.Unmarshal(b, &v) != nil {
		return string(b)
	}
	return abbrevValue(v, 0)
}

func abbrevValue(v any, depth int) any {
	switch x := v.(type) {
	case string:
		if len(x) > 160 {
			return fmt.Sprintf("%s…[%d bytes]…%s", x[:90], len(x), x[len(x)-30:])
		}
		return x
	case []any:
		out := make([]any, 0, len(x))
		for i, e := range x {
			if i >= 12 {
				out = append(out, fmt.Sprintf("…[%d items in all]", len(x)))
				break
			}
			out = append(out, abbrevValue(e, depth+1))
		}
		return out
	case map[string]any:
		out := map[string]any{}
		for k, e := range x {
			out[k] = abbrevValue(e, depth+1)
		}
		return out
	}
	return v
}

type statsFile struct {
	Sub         string           `json:"sub"`
	Kind        string           `json:"kind"`
	Shard       int              `json:"shard"`
	Shards      int              `json:"shards"`
	Tier        string           `json:"tier"`
	Evaluations int64            `json:"evaluations"`
	NonTrivial  int64            `json:"nontrivial_counted"`
	Hashed      int              `json:"nontrivial_hashed"`
	Labels      map[string]int64 `json:"labels"`
	Excluded    map[string]int64 `json:"excluded_by_known_finding,omitempty"`
	Samples     []any            `json:"samples"`
	Spaces      []string         `json:"exhaustive_subspaces,omitempty"`
	Exhaustive  bool             `json:"exhaustive"`
	Failed      int              `json:"failed"`
	Notes       []string         `json:"notes,omitempty"`
	WallS       float64          `json:"wall_s"`
}

func (r *recorder) flush() {
	dir := os.Getenv("VERIF_OUT")
	if dir == "" {
		return
	}
	_ = os.MkdirAll(dir, 0o755)
	r.mu.Lock()
	defer r.mu.Unlock()
	st := statsFile{Sub: r.sub, Kind: r.kind, Shard: Shard(), Shards: Shards(), Tier: Tier(), Evaluations: r.evaluations,
		NonTrivial: r.nontrivial, Hashed: len(r.hashes), Labels: r.labels, Excluded: r.excluded, Samples: r.samples,
		Spaces: r.spaces, Exhaustive: r.exhaustive, Failed: r.failed, Notes: r.notes, WallS: time.Since(r.start).Seconds()}
	base := filepath.Join(dir, fmt.Sprintf("%s.%d", r.sub, Shard()))
	b, err := json.Marshal(st)
	if err != nil { // e.g. a sample holding a value JSON cannot carry: keep the counts
		st.Samples = nil
		st.Notes = append(append([]string{}, st.Notes...), "samples dropped: "+err.Error())
		b, _ = json.Marshal(st)
	}
	// written under another name and renamed, so that a process that dies while writing leaves the previous
	// statistics (or none) rather than half a file
	if os.WriteFile(base+".json.tmp", b, 0o644) == nil {
		_ = os.Rename(base+".json.tmp", base+".json")
	}
	hs := make([]uint64, 0, len(r.hashes))
	for h := range r.hashes {
		hs = append(hs, h)
	}
	sort.Slice(hs, func(i, j int) bool { return hs[i] < hs[j] })
	buf := make([]byte, 8*len(hs))
	for i, h := range hs {
		binary.LittleEndian.PutUint64(buf[8*i:], h)
	}
	_ = os.WriteFile(base+".hashes", buf, 0o644)
}

func replayPath(sub string) string {
	dir := os.Getenv("VERIF_REPLAY_DIR")
	if dir == "" {
		dir = "/verif/replays"
	}
	_ = os.MkdirAll(dir, 0o755)
	prop := os.Getenv("VERIF_PROPERTY")
	if prop == "" {
		prop = "Cxx"
	}
	return filepath.Join(dir, fmt.Sprintf("%s-%s-s%d.json", prop, sub, Shard()))
}

func writeCase[C any](path, sub string, c C, errText string) {
	raw, err := json.Marshal(c)
	if err != nil {
		raw = []byte(`"unserialisable"`)
	}
	if len(errText) > 4000 {
		errText = errText[:4000] + "…"
	}
	sc := SavedCase{Property: os.Getenv("VERIF_PROPERTY"), Sub: sub, Error: errText, Case: raw}
	recent.mu.Lock()
	for i, p := range recent.cases {
		if i == len(recent.cases)-1 && bytes.Equal(p, raw) {
			break // the case itself
		}
		sc.Preceding = append(sc.Preceding, json.RawMessage(p))
	}
	recent.mu.Unlock()
	b, _ := json.MarshalIndent(sc, "", " ")
	_ = os.WriteFile(path, b, 0o644)
}

// SafeCheck runs the oracle, turning a panic in the calling goroutine into an error.
func SafeCheck[C any](s *Sub[C], c C) (err error) {
	defer func() {
		if r := recover(); r != nil {
			err = fmt.Errorf("panic: %v\n%s", r, trimStack(debug.Stack()))
		}
	}()
	limit := caseDeadline()
	disarm := watchCase(limit, func() {
		AbortCase(s, c, Errf("the case did not return within %v (cases of this sub-check take milliseconds to seconds): the code under test does not terminate on it, or takes orders of magnitude longer than on its neighbours", limit))
	})
	defer disarm()
	currentCase = func() []byte { b, _ := json.Marshal(c); return b }
	err = s.Check(c)
	if err == nil {
		if herr := verifyHeld(); herr != nil {
			// depends on the cases before this one (they are in the replay file): not something to shrink
			AbortCase(s, c, herr)
		}
	}
	return err
}

// Recycled calls use(i, build(i)) for i = 0 .. n-1 and collects garbage after each call. build returns a fresh value
// each time - same size, other content - to which nothing else refers, so that each value is likely to be laid into the
// memory its predecessor has just left: what the code under test remembers about an argument must not be tied to where
// the argument happened to lie (an address, a string header, %p).
func Recycled(n int, build func(i int) string, use func(i int, s string) error) error {
	for i := 0; i < n; i++ {
		if err := func() error { return use(i, build(i)) }(); err != nil {
			return err
		}
		runtime.GC()
	}
	Count("fresh same-size arguments used one after the other with a garbage collection in between", int64(n))
	return nil
}

// Hold keeps a result of the code under test beyond the case that obtained it: verify compares the live result with
// what it has to be (an independent expectation, or a deep copy taken when it was returned). After each of the next
// cases of the process has been judged, every held result is verified again: a result belongs to the caller for as
// long as he keeps it, whatever the library is asked to do next - in particular when it hands its results out of pooled
// or recycled memory. At most six results are held; the oldest makes room.
func Hold(what string, verify func() error) {
	Count("results held beyond their case and looked at again after each of the next cases", 1)
	held.mu.Lock()
	defer held.mu.Unlock()
	if len(held.list) >= 6 {
		held.list = held.list[1:]
	}
	var raw []byte
	if currentCase != nil {
		raw = currentCase() // the case that obtained the result: it goes into the replay file of a later failure
	}
	held.list = append(held.list, heldResult{what, verify, raw})
	held.registered++
}

// currentCase renders the case SafeCheck is evaluating (set by SafeCheck; one case at a time per process).
var currentCase func() []byte

type heldResult struct {
	what   string
	verify func() error
	raw    []byte
}

var held struct {
	mu         sync.Mutex
	list       []heldResult
	registered int64
	verified   int64
}

func verifyHeld() error {
	held.mu.Lock()
	list := append([]heldResult{}, held.list...)
	held.mu.Unlock()
	for _, h := range list {
		err := func() (err error) {
			defer func() {
				if r := recover(); r != nil {
					err = fmt.Errorf("panic while looking at it: %v", r)
				}
			}()
			return h.verify()
		}()
		held.mu.Lock()
		held.verified++
		held.mu.Unlock()
		if err != nil {
			held.mu.Lock()
			held.list = nil
			held.mu.Unlock()
			if len(h.raw) > 0 && len(h.raw) <= 4*recentMaxBytes { // the holder precedes the current case in the replay file
				recent.mu.Lock()
				known := false
				for _, p := range recent.cases {
					known = known || bytes.Equal(p, h.raw)
				}
				if !known {
					recent.cases = append([][]byte{h.raw}, recent.cases...)
				}
				recent.mu.Unlock()
			}
			return Errf("a result handed out to an earlier case and still held (%s) is no longer what it was, now that this case has run: %v", h.what, err)
		}
	}
	return nil
}

// A case that does not come back is a result too: the watchdog below turns it into a replay file and a failed
// process after VERIF_CASE_DEADLINE seconds (default 300 - two to five orders of magnitude above what a case takes, so
// that a loaded machine cannot trip it), instead of letting the whole sub-check run into the test binary's time limit.
var watchdog struct {
	once  sync.Once
	mu    sync.Mutex
	start time.Time
	limit time.Duration
	abort func()
}

func caseDeadline() time.Duration {
	return time.Duration(envInt("VERIF_CASE_DEADLINE", 300)) * time.Second
}

func watchCase(limit time.Duration, abort func()) (disarm func()) {
	watchdog.once.Do(func() {
		go func() {
			for {
				time.Sleep(time.Second)
				watchdog.mu.Lock()
				f := watchdog.abort
				late := f != nil && time.Since(watchdog.start) > watchdog.limit && time.Since(watchdog.start) > time.Duration(float64(watchdog.limit)*Slack())
				if late {
					watchdog.abort = nil
				}
				watchdog.mu.Unlock()
				if late {
					f() // writes the replay file and exits the process
				}
			}
		}()
	})
	watchdog.mu.Lock()
	watchdog.start, watchdog.limit, watchdog.abort = time.Now(), limit, abort
	watchdog.mu.Unlock()
	return func() {
		watchdog.mu.Lock()
		watchdog.abort = nil
		watchdog.mu.Unlock()
	}
}

func trimStack(b []byte) string {
	lines := strings.Split(string(b), "\n")
	if len(lines) > 40 {
		lines = lines[:40]
	}
	return strings.Join(lines, "\n")
}

// HarnessError marks a failure of the harness itself (self-test, I/O): the driver maps
// it to exit 2, never to a VIOLATION.
type HarnessError struct{ Msg string }

func (e HarnessError) Error() string { return "HARNESS: " + e.Msg }

func Harnessf(format string, a ...any) error { return HarnessError{fmt.Sprintf(format, a...)} }

func isHarness(err error) bool {
	var he HarnessError
	return errors.As(err, &he) || strings.HasPrefix(err.Error(), "HARNESS:")
}

// ---------------------------------------------------------------------------------
// runners

func begin(sub, kind string) *recorder {
	r := newRecorder(sub, kind)
	curMu.Lock()
	cur = r
	curMu.Unlock()
	return r
}

func end(r *recorder) {
	r.flush()
	curMu.Lock()
	if cur == r {
		cur = nil
	}
	curMu.Unlock()
}

// RunRapid drives the sub-check with rapid (case count, seed: -rapid.checks/-rapid.seed).
func RunRapid[C any](t *testing.T, s *Sub[C]) {
	r := begin(s.Name, "rapid")
	defer end(r)
	pre := ""
	if s.PreRecord {
		pre = replayPath(s.Name) + ".last"
	}
	rapid.Check(t, func(rt *rapid.T) {
		c := s.Gen(rt)
		observe(r, s, c, true)
		if pre != "" {
			writeCase(pre, s.Name, c, "last case started before the process died")
		}
		if err := SafeCheck(s, c); err != nil {
			if isHarness(err) {
				fmt.Printf("VERIF-HARNESS-ERROR sub=%s %v\n", s.Name, err)
				rt.Fatalf("%v", err)
			}
			r.mu.Lock()
			r.failed++
			r.mu.Unlock()
			writeCase(replayPath(s.Name), s.Name, c, err.Error())
			rt.Fatalf("property violated: %v", err)
		}
	})
	if pre != "" {
		_ = os.Remove(pre)
	}
}

// RunEnum drives the sub-check over an enumerated space. each must call yield for every
// element of the space in a fixed order; this process checks the elements whose index is
// congruent to its shard. complete says whether each enumerates the whole named space on
// this tier (true) or a sample of it (false).
func RunEnum[C any](t *testing.T, s *Sub[C], space string, complete bool, each func(yield func(C) bool)) {
	r := begin(s.Name, "enum")
	defer end(r)
	shard, shards := int64(Shard()), int64(Shards())
	var idx int64
	stop := false
	each(func(c C) bool {
		i := idx
		idx++
		if i%shards != shard {
			return true
		}
		observe(r, s, c, false)
		if err := SafeCheck(s, c); err != nil {
			if isHarness(err) {
				fmt.Printf("VERIF-HARNESS-ERROR sub=%s %v\n", s.Name, err)
				t.Errorf("%v", err)
				stop = true
				return false
			}
			r.mu.Lock()
			r.failed++
			r.mu.Unlock()
			writeCase(replayPath(s.Name), s.Name, c, err.Error())
			t.Errorf("property violated on element %d of %s: %v", i, space, err)
			stop = true
			return false
		}
		return true
	})
	r.mu.Lock()
	if !stop {
		r.spaces = append(r.spaces, fmt.Sprintf("%s (%d elements in all shards)", space, idx))
		r.exhaustive = complete
	}
	r.mu.Unlock()
}

// Replay runs the saved case named by VERIF_REPLAY through the registered sub-check.
func Replay(t *testing.T) {
	path := os.Getenv("VERIF_REPLAY")
	if path == "" {
		t.Skip("VERIF_REPLAY not set")
	}
	b, err := os.ReadFile(path)
	if err != nil {
		fmt.Printf("VERIF-HARNESS-ERROR cannot read %s: %v\n", path, err)
		t.Fatalf("cannot read %s: %v", path, err)
	}
	var sc SavedCase
	if err := json.Unmarshal(b, &sc); err != nil {
		fmt.Printf("VERIF-HARNESS-ERROR cannot decode %s: %v\n", path, err)
		t.Fatalf("cannot decode %s: %v", path, err)
	}
	regMu.Lock()
	rp, ok := registry[sc.Sub]
	regMu.Unlock()
	if !ok {
		fmt.Printf("VERIF-HARNESS-ERROR unknown sub-check %q in %s\n", sc.Sub, path)
		t.Fatalf("unknown sub-check %q", sc.Sub)
	}
	for _, p := range sc.Preceding { // earlier calls of the failing process; their own outcome is not judged here
		_ = rp.run(p)
	}
	if err := rp.run(sc.Case); err != nil {
		if isHarness(err) {
			fmt.Printf("VERIF-HARNESS-ERROR %v\n", err)
		}
		fmt.Printf("VERIF-REPLAY-FAIL sub=%s %s\n", sc.Sub, firstLine(err.Error()))
		t.Fatalf("replay of %s fails: %v", path, err)
	}
	fmt.Printf("VERIF-REPLAY-PASS sub=%s\n", sc.Sub)
}

func firstLine(s string) string {
	if i := strings.IndexByte(s, '\n'); i >= 0 {
		s = s[:i]
	}
	if len(s) > 300 {
		s = s[:300]
	}
	return s
}

// ---------------------------------------------------------------------------------
// helpers shared by the property packages

// Errf is fmt.Errorf with long arguments shortened, so replay files stay readable.
func Errf(format string, a ...any) error {
	for i, x := range a {
		if s, ok := x.(string); ok && len(s) > 400 {
			a[i] = fmt.Sprintf("%s…[%d bytes]…%s", s[:200], len(s), s[len(s)-60:])
		}
	}
	return fmt.Errorf(format, a...)
}

// Slack is the factor by which every wall-clock limit of the harness is stretched on a machine that runs more
// processes than it has cores: max(1, 2 x one-minute load average / number of CPUs). A limit is there to catch a
// computation that does not end or a party that is never served - not a process that was not given the CPU. At a load of
// up to half the cores the factor is 1; a check run alone on an otherwise idle machine (load about equal to the cores)
// has about 2; eight runnable processes per core give 16. Stretching can only delay a report, never cause one.
func Slack() float64 {
	b, err := os.ReadFile("/proc/loadavg")
	if err != nil {
		return 1
	}
	var load float64
	if _, err := fmt.Sscanf(string(b), "%f", &load); err != nil {
		return 1
	}
	return math.Max(1, 2*load/float64(runtime.NumCPU()))
}

// After is time.After with the limit stretched by Slack, which is looked at again whenever the limit seems to have
// passed. It is built on runtime timers (time.AfterFunc), not on a sleeping goroutine per call: the first version kept
// one goroutine alive for the whole limit of every call, hundreds of thousands of them in a thorough run, and under the
// race detector that cost gigabytes per process (thorough run #13: the kernel killed C09 and C20 shards, exit 2).
func After(d time.Duration) <-chan time.Time {
	ch, _ := AfterStop(d)
	return ch
}

// AfterStop is After with a function that releases the timer once the wait is over. Callers that wait many thousand
// times a second (the byte-level fuzz targets) must call it: a timer that is not stopped stays with the runtime until
// its limit has passed, and a million pending ones stalled the fuzz workers of C20 in thorough run #15 (exit 2).
func AfterStop(d time.Duration) (<-chan time.Time, func()) {
	ch := make(chan time.Time, 1)
	start := time.Now()
	var mu sync.Mutex
	var timer *time.Timer
	stopped := false
	var look func()
	look = func() {
		mu.Lock()
		defer mu.Unlock()
		if stopped {
			return
		}
		if time.Since(start) >= time.Duration(float64(d)*Slack()) {
			ch <- time.Now()
			return
		}
		timer = time.AfterFunc(time.Second, look)
	}
	mu.Lock()
	timer = time.AfterFunc(d, look)
	mu.Unlock()
	return ch, func() {
		mu.Lock()
		stopped = true
		if timer != nil {
			timer.Stop()
		}
		mu.Unlock()
	}
}

// WithDeadline runs f in a goroutine of its own and reports whether it returned within d.
// A panic inside f is returned as an error.
func WithDeadline(d time.Duration, f func()) (finished bool, err error) {
	done := make(chan error, 1)
	go func() {
		defer func() {
			if r := recover(); r != nil {
				done <- fmt.Errorf("panic: %v\n%s", r, trimStack(debug.Stack()))
				return
			}
			done <- nil
		}()
		f()
	}()
	limit, release := AfterStop(d)
	defer release()
	select {
	case e := <-done:
		return true, e
	case <-limit:
		return false, nil
	}
}

// Fill expands a 64-bit value drawn from rapid into n letters of alphabet: bulk filler of
// long sequences (DESIGN 2.3). It is a pure function of its arguments.
func Fill(seed uint64, n int, alphabet string) string {
	b := make([]byte, n)
	x := seed*0x9E3779B97F4A7C15 + 0x1234567
	for i := range b {
		// splitmix64
		x += 0x9E3779B97F4A7C15
		z := x
		z = (z ^ (z >> 30)) * 0xBF58476D1CE4E5B9
		z = (z ^ (z >> 27)) * 0x94D049BB133111EB
		z ^= z >> 31
		b[i] = alphabet[z%uint64(len(alphabet))]
	}
	return string(b)
}

// Manual lets a sub-check drive its own enumeration (for checks that relate many elements
// of a space to one another, such as partition comparisons).
type Manual[C any] struct {
	r    *recorder
	s    *Sub[C]
	t    *testing.T
	stop bool
}

// Observe records one explored element; nontrivial per the sub-check's stated rule.
func (m *Manual[C]) Observe(c C) { observe(m.r, m.s, c, false) }

// Eval records the element and runs the sub-check's oracle on it; false means stop.
func (m *Manual[C]) Eval(c C) bool {
	observe(m.r, m.s, c, false)
	if err := SafeCheck(m.s, c); err != nil {
		m.Fail(c, err)
		return false
	}
	return true
}

// Fail reports a violation witnessed by c (c must fail under the registered Check too, so
// that the replay file reproduces it).
func (m *Manual[C]) Fail(c C, err error) {
	m.stop = true
	if isHarness(err) {
		fmt.Printf("VERIF-HARNESS-ERROR sub=%s %v\n", m.s.Name, err)
		m.t.Errorf("%v", err)
		return
	}
	m.r.mu.Lock()
	m.r.failed++
	m.r.mu.Unlock()
	writeCase(replayPath(m.s.Name), m.s.Name, c, err.Error())
	m.t.Errorf("property violated: %v", err)
}

func (m *Manual[C]) Stopped() bool { return m.stop }

// Mine reports whether work unit i belongs to this process's shard.
func Mine(i int) bool { return i%Shards() == Shard() }

// RunManual runs body with a Manual; the space is recorded as enumerated (complete or
// sampled) if body finishes without a failure.
func RunManual[C any](t *testing.T, s *Sub[C], space string, complete bool, body func(m *Manual[C])) {
	r := begin(s.Name, "enum")
	defer end(r)
	m := &Manual[C]{r: r, s: s, t: t}
	body(m)
	r.mu.Lock()
	if !m.stop {
		r.spaces = append(r.spaces, space)
		r.exhaustive = complete
	}
	r.mu.Unlock()
}

// SeqSpec describes a sequence compactly: a literal, or filler expanded from a 64-bit value.
type SeqSpec struct {
	Lit   string `json:"lit,omitempty"`
	Fill  uint64 `json:"fill,omitempty"`
	N     int    `json:"n,omitempty"`
	Alpha string `json:"alpha,omitempty"`
	// Unit repeated Reps times follows (a homopolymer tract or tandem repeat)
	Unit string `json:"unit,omitempty"`
	Reps int    `json:"reps,omitempty"`
}

func (s SeqSpec) String() string {
	out := s.Lit
	if s.N > 0 && s.Alpha != "" {
		out += Fill(s.Fill, s.N, s.Alpha)
	}
	if s.Reps > 0 && s.Unit != "" {
		out += strings.Repeat(s.Unit, s.Reps)
	}
	return out
}

var tempDirFlip struct {
	mu sync.Mutex
	n  int
}

// AlternateTempDir runs f; on every second call of the process it does so with TMPDIR pointing at a fresh
// directory on another file system than the harness's work directory (/dev/shm, when it is one), so that code
// which goes through os.TempDir - a temporary file that is renamed into place, say - meets a target on a
// different device. Where no second file system is found f simply runs (counted in the evidence notes).
func AlternateTempDir(f func()) {
	tempDirFlip.mu.Lock()
	tempDirFlip.n++
	other := tempDirFlip.n%2 == 0
	tempDirFlip.mu.Unlock()
	if !other {
		f()
		return
	}
	dir := otherFileSystemDir()
	if dir == "" {
		Count("file routes that could not be run with the temp directory on another file system (none found)", 1)
		f()
		return
	}
	old, had := os.LookupEnv("TMPDIR")
	_ = os.Setenv("TMPDIR", dir)
	defer func() {
		if had {
			_ = os.Setenv("TMPDIR", old)
		} else {
			_ = os.Unsetenv("TMPDIR")
		}
		_ = os.RemoveAll(dir)
	}()
	Count("file routes run with the temp directory on another file system", 1)
	f()
}

func otherFileSystemDir() string {
	var here, there syscall.Stat_t
	if syscall.Stat(WorkDir(), &here) != nil || syscall.Stat("/dev/shm", &there) != nil || here.Dev == there.Dev {
		return ""
	}
	dir, err := os.MkdirTemp("/dev/shm", "verif-tmp-")
	if err != nil {
		return ""
	}
	return dir
}

// Siblings returns strings of the same length as s with the first, the middle or the last byte replaced by
// another byte of s's own alphabet (or by 'A' / 'C' when s uses one letter only) - the same suffix, the same ends, the
// same prefix: up to three alternatives each for the first and the last byte (which alternative collides with s
// under a lossy key depends on the bit that is lost), one for the middle. Checks evaluate them before the judged
// input and discard the results - a result must depend on the call's own arguments only, whatever related input
// was seen before.
func Siblings(s string) []string {
	if len(s) == 0 {
		return nil
	}
	others := func(c byte, max int) []byte {
		var out []byte
		seen := map[byte]bool{c: true}
		for i := 0; i < len(s) && len(out) < max; i++ {
			if !seen[s[i]] {
				seen[s[i]] = true
				out = append(out, s[i])
			}
		}
		if len(out) == 0 {
			if c == 'A' {
				return []byte{'C'}
			}
			return []byte{'A'}
		}
		return out
	}
	var out []string
	seen := map[int]bool{}
	for _, p := range []int{0, len(s) / 2, len(s) - 1} {
		if !seen[p] {
			seen[p] = true
			max := 3
			if p != 0 && p != len(s)-1 {
				max = 1
			}
			for _, o := range others(s[p], max) {
				b := []byte(s)
				b[p] = o
				out = append(out, string(b))
			}
		}
	}
	return out
}

// Placeholders are the spellings that file formats, tools and programmers use for "nothing here", "not known" or "not a
// number", together with the fillers poly's own writers put into empty columns. As field values they are text like any
// other and come back as they were given - exactly the values a well-meant clean-up normalises away.
var Placeholders = []string{".", "-", "?", "*", "_", "...", "unknown", "Unknown", "UNKNOWN", "none", "None", "null", "NULL", "nil", "NA", "N/A", "n/a",
	"NaN", "nan", "Inf", "+Inf", "-Inf", "inf", "Infinity", "0", "-0", "0.0", "1", "-1", "1e3", "1.50", "true", "false", "TRUE", "yes", "no",
	"undefined", "default", "feature", "region", "misc_feature", "source", "gene", "unnamed", "Untitled", "empty", "EMPTY", "UNK", "unk", "bp", "aa", "DNA", "linear", "circular"}

var pastOnce sync.Map

// Past gives the process a past before its first judged case: call(i, true) for i < probes makes calls with arguments
// that the cases to come are likely to use again (the short words, the small sizes), then call(i, false) for i < others
// makes calls with arguments that are all distinct from each other and from the probes. Results are discarded. What a
// library remembers from call to call - a memo, a pool, an intern table, a ring of recent results - is then full, has
// wrapped and has evicted the probes by the time the cases reuse them. Runs once per process and name; counted.
func Past(name string, probes, others int, call func(i int, probe bool)) {
	once, _ := pastOnce.LoadOrStore(name, new(sync.Once))
	once.(*sync.Once).Do(func() {
		for i := 0; i < probes; i++ {
			call(i, true)
		}
		for i := 0; i < others; i++ {
			call(i, false)
		}
		Count("calls made before the first judged case, results discarded ("+name+")", int64(probes+others))
	})
}

// Stems returns inputs that stand to s as the steps of building it up or cutting it down: s with a letter appended, s
// without its first letter, the first half of s and s without its last letter - in that order, so that a caller that
// runs them before the judged call ends with a string of which s is the one-letter extension (primer design grows a
// candidate base by base; a reader of a growing file re-parses ever longer texts).
func Stems(s string) []string {
	if len(s) < 2 {
		return nil
	}
	return []string{s + s[:1], s[1:], s[:len(s)/2], s[:len(s)-1]}
}

// Spoil returns relatives of s that a function with a restricted alphabet has to reject, but only after it has looked
// at part of them: bad in place of the middle letter, bad appended, bad in front. Run before the judged call with the
// results discarded: a call that ends in an error must leave nothing behind for the next one.
func Spoil(s string, bad byte) []string {
	b := string([]byte{bad})
	if len(s) == 0 {
		return []string{b}
	}
	m := len(s) / 2
	return []string{s[:m] + b + s[m+1:], b + s, s + b}
}

// Scribble overwrites a buffer that was handed to the code under test: what that code returned must not change.
func Scribble(b []byte) {
	for i := range b {
		b[i] = '#'
	}
}

// StaleFile puts n bytes of old content at path, so that a writer under test has to replace an existing,
// longer file rather than create a fresh one (overwriting is what a caller's second Write to a path does).
func StaleFile(path string, n int) {
	const line = "stale content of an earlier, longer file that the writer has to replace\n"
	b := bytes.Repeat([]byte(line), n/len(line)+1)
	_ = os.WriteFile(path, b, 0o644)
}

// EdgeSizes lists the sizes in [lo, hi] at which buffer, block, line-width and integer-width slips
// show: the ends of the range, powers of two and of ten, multiples of 1024, 4096 and 65536, multiples of
// the line widths 60, 70 and 80 (the first few, and the last ones below hi and below each power of two),
// each with both neighbours. Sorted, without duplicates.
func EdgeSizes(lo, hi int) []int {
	set := map[int]bool{}
	add := func(v int) {
		for d := -1; d <= 1; d++ {
			if v+d >= lo && v+d <= hi {
				set[v+d] = true
			}
		}
	}
	add(lo)
	add(hi)
	for k := 0; k < 31; k++ {
		add(1 << k)
		add(3 << k)
	}
	for v := 10; v <= hi && v > 0; v *= 10 {
		add(v)
	}
	for _, step := range []int{1024, 4096, 65536} {
		for m := 1; m <= 40 && m*step <= hi; m++ {
			add(m * step)
		}
	}
	for _, w := range []int{3, 60, 70, 80} {
		for m := 1; m <= 6; m++ {
			add(m * w)
		}
		add(hi / w * w)
		for k := 8; k < 31 && 1<<k <= hi; k++ {
			add((1 << k) / w * w)
			add(((1<<k)/w + 1) * w)
		}
	}
	out := make([]int, 0, len(set))
	for v := range set {
		out = append(out, v)
	}
	sort.Ints(out)
	return out
}

// DrawSize draws a size in [lo, hi]: most are small (so cases stay cheap and shrink well), a share is
// mid-sized, one in twenty is uniform over the whole range, and three in twenty come from EdgeSizes
// (half of those from the edges in the upper part of the range).
func DrawSize(t *rapid.T, name string, lo, hi int) int {
	small := min(hi, max(lo, 40))
	mid := min(hi, max(lo, 600))
	switch cls := rapid.IntRange(0, 19).Draw(t, name+"_size"); {
	case cls == 0 && hi > mid:
		return rapid.IntRange(mid, hi).Draw(t, name+"_len_big")
	case cls <= 3 && hi > small:
		edges := EdgeSizes(lo, hi)
		if cls == 1 {
			from := sort.SearchInts(edges, lo+(hi-lo)/16)
			if from < len(edges) {
				edges = edges[from:]
			}
		}
		return edges[rapid.IntRange(0, len(edges)-1).Draw(t, name+"_len_edge")]
	case cls <= 7 && mid > small:
		return rapid.IntRange(small, mid).Draw(t, name+"_len_mid")
	default:
		return rapid.IntRange(lo, small).Draw(t, name+"_len")
	}
}

// DrawSeq draws a sequence over alpha with a length from DrawSize: short ones letter by letter (so
// they shrink well), long ones as filler expanded from one 64-bit value. One in six has low complexity, as
// real sequences do: a homopolymer or a tandem repeat of a 2..6-letter unit over the whole length, uniform
// letters followed by a homopolymer tail of any length (a poly-A tail), or a composition in which one letter
// makes up nine tenths.
func DrawSeq(t *rapid.T, name, alpha string, lo, hi int) SeqSpec {
	n := DrawSize(t, name, lo, hi)
	if n > 0 && len(alpha) > 1 {
		letter := func(what string) string {
			return string(alpha[rapid.IntRange(0, len(alpha)-1).Draw(t, name+what)])
		}
		switch rapid.IntRange(0, 17).Draw(t, name+"_shape") {
		case 0: // tandem repeat (unit of one letter: homopolymer), starting anywhere in the unit
			unit := ""
			for k := rapid.SampledFrom([]int{1, 1, 2, 3, 4, 6}).Draw(t, name+"_unit_len"); k > 0; k-- {
				unit += letter("_unit_letter")
			}
			return SeqSpec{Lit: unit[len(unit)-n%len(unit):], Unit: unit, Reps: n / len(unit)}
		case 1: // uniform letters, then a tail of one letter
			k := 1 + DrawSize(t, name+"_tail", 0, n-1)
			return SeqSpec{Fill: rapid.Uint64().Draw(t, name+"_fill"), N: n - k, Alpha: alpha, Unit: letter("_tail_letter"), Reps: k}
		case 2: // one letter makes up nine tenths
			return SeqSpec{Fill: rapid.Uint64().Draw(t, name+"_fill"), N: n, Alpha: strings.Repeat(letter("_main_letter"), 9*len(alpha)) + alpha}
		}
	}
	if n > 48 {
		return SeqSpec{Fill: rapid.Uint64().Draw(t, name+"_fill"), N: n, Alpha: alpha}
	}
	b := make([]byte, n)
	for i := range b {
		b[i] = alpha[rapid.IntRange(0, len(alpha)-1).Draw(t, name+"_letter")]
	}
	return SeqSpec{Lit: string(b)}
}

// EachString calls yield for every string over alpha of length lo..hi, in length-then-
// lexicographic order; it stops when yield returns false and reports whether it finished.
func EachString(alpha string, lo, hi int, yield func(s string) bool) bool {
	for n := lo; n <= hi; n++ {
		idx := make([]int, n)
		buf := make([]byte, n)
		for {
			for i := range buf {
				buf[i] = alpha[idx[i]]
			}
			if !yield(string(buf)) {
				return false
			}
			p := n - 1
			for p >= 0 {
				idx[p]++
				if idx[p] < len(alpha) {
					break
				}
				idx[p] = 0
				p--
			}
			if p < 0 {
				break
			}
		}
	}
	return true
}

// ChildResult is the outcome of replaying a case in a fresh child process.
type ChildResult struct {
	Status string // pass | fail | timeout | crashed
	Output string
}

// InChild reports whether this process is such a child.
func InChild() bool { return os.Getenv("VERIF_CHILD") == "1" }

// RunInChild replays the case through the same test binary in a fresh process with a
// virtual-memory cap (MB, 0 = none) and a wall-clock limit. Used where poly may not terminate
// or may allocate without bound.
func RunInChild[C any](s *Sub[C], c C, limit time.Duration, memMB int) ChildResult {
	dir := WorkDir()
	path := filepath.Join(dir, fmt.Sprintf("child-%s-%d.json", s.Name, time.Now().UnixNano()))
	writeCase(path, s.Name, c, "")
	defer os.Remove(path)
	cmdline := fmt.Sprintf("exec %q -test.run '^TestReplay$' -test.timeout %ds", os.Args[0], int(limit.Seconds()*math.Max(Slack(), 1)*2)+60)
	if memMB > 0 {
		cmdline = fmt.Sprintf("ulimit -v %d; %s", memMB*1024, cmdline)
	}
	cmd := exec.Command("/bin/sh", "-c", cmdline)
	cmd.Env = append(os.Environ(), "VERIF_CHILD=1", "VERIF_REPLAY="+path, "VERIF_OUT=")
	cmd.SysProcAttr = &syscall.SysProcAttr{Setpgid: true}
	var out bytes.Buffer
	cmd.Stdout, cmd.Stderr = &out, &out
	if err := cmd.Start(); err != nil {
		return ChildResult{"crashed", "cannot start child: " + err.Error()}
	}
	done := make(chan error, 1)
	go func() { done <- cmd.Wait() }()
	childLimit, releaseChildLimit := AfterStop(limit)
	defer releaseChildLimit()
	select {
	case <-done:
	case <-childLimit:
		_ = syscall.Kill(-cmd.Process.Pid, syscall.SIGKILL)
		<-done
		return ChildResult{"timeout", tail(out.String(), 3000)}
	}
	o := out.String()
	switch {
	case strings.Contains(o, "VERIF-REPLAY-PASS"):
		return ChildResult{"pass", ""}
	case strings.Contains(o, "VERIF-REPLAY-FAIL"):
		return ChildResult{"fail", tail(o, 3000)}
	}
	return ChildResult{"crashed", tail(o, 3000)}
}

func tail(s string, n int) string {
	if len(s) > n {
		return "…" + s[len(s)-n:]
	}
	return s
}

// AbortCase ends the process on a case that cannot be survived (poly keeps running away in
// goroutines of its own after a deadline): the case is written as the replay file, the
// statistics are flushed, and the process exits with a failure. No shrinking happens.
func AbortCase[C any](s *Sub[C], c C, err error) {
	writeCase(replayPath(s.Name), s.Name, c, err.Error())
	curMu.Lock()
	r := cur
	curMu.Unlock()
	if r != nil {
		r.mu.Lock()
		r.failed++
		r.mu.Unlock()
		r.flush()
	}
	fmt.Printf("--- FAIL: VERIF-ABORT sub=%s: %s\n", s.Name, firstLine(err.Error()))
	os.Exit(1)
}

// RunFuzz drives a sub-check with Go's native coverage-guided fuzzer through rapid.MakeFuzz:
// the fuzzer mutates the byte stream rapid draws from, so the same generator and oracle are
// explored under coverage guidance. Failing cases are written as replay files like anywhere else.
func RunFuzz[C any](f *testing.F, s *Sub[C]) {
	f.Fuzz(rapid.MakeFuzz(func(rt *rapid.T) {
		c := s.Gen(rt)
		if err := SafeCheck(s, c); err != nil {
			if isHarness(err) {
				fmt.Printf("VERIF-HARNESS-ERROR sub=%s %v\n", s.Name, err)
				rt.Fatalf("%v", err)
			}
			writeCase(replayPath(s.Name), s.Name, c, err.Error())
			rt.Fatalf("property violated: %v", err)
		}
	}))
}

// FailFuzz is the failure path of byte-level fuzz targets: the case is written as the replay
// file of the named sub-check and the test fails.
func FailFuzz[C any](t *testing.T, s *Sub[C], c C, err error) {
	if isHarness(err) {
		fmt.Printf("VERIF-HARNESS-ERROR sub=%s %v\n", s.Name, err)
		t.Fatalf("%v", err)
	}
	writeCase(replayPath(s.Name), s.Name, c, err.Error())
	t.Fatalf("property violated: %v", err)
}

// Guarded returns a copy of b that is the front part of a larger buffer - a caller's read buffer holding more than
// the document, a sub-slice of a file image - with the rest of the buffer (its spare capacity, 64 bytes) filled with
// a pattern. intact reports whether the code that was given the view left both alone: the document's bytes as they
// were (a parser does not write to its input) and the bytes behind it untouched (append on the argument would land
// there).
func Guarded(b []byte) (view []byte, intact func() error) {
	const guard = 64
	big := make([]byte, len(b)+guard)
	copy(big, b)
	for i := len(b); i < len(big); i++ {
		big[i] = byte(0xA5 ^ i)
	}
	view = big[:len(b)]
	return view, func() error {
		for i := range b {
			if big[i] != b[i] {
				return Errf("the input bytes were changed by the call: byte %d of %d is %q, was %q", i, len(b), big[i], b[i])
			}
		}
		for i := len(b); i < len(big); i++ {
			if big[i] != byte(0xA5^i) {
				return Errf("the call wrote behind the end of its input: the caller's buffer holds %q at offset %d, %d bytes past the %d-byte document", big[i], i, i-len(b)+1, len(b))
			}
		}
		return nil
	}
}
