package vk

import (
	"hash/adler32"
	"hash/crc32"
	"hash/fnv"
	"sync"
)

// A cache or a de-duplication table keyed by a short checksum of a sequence instead of the sequence gives a wrong
// answer for the second of two different sequences with the same checksum. Random generation does not produce such
// pairs for a 32-bit checksum (one chance in 2^32 per pair); a birthday search over a few hundred thousand strings
// does. CollidingPairs returns, for each of the usual 32-bit string checksums, pairs of distinct equal-length A/C/G/T
// strings (upper case) that collide under it: FNV-1 and FNV-1a, CRC-32 (IEEE and Castagnoli), Adler-32, and the
// multiplicative hashes with factors 31 (Java's String.hashCode), 33 (djb2), 65599 (sdbm) and 131. Checks feed the
// two strings of a pair to the code under test one after the other and judge the second as usual.
type CollidingPair struct {
	Checksum string
	A, B     string
}

var collide struct {
	once  sync.Once
	pairs []CollidingPair
}

func CollidingPairs() []CollidingPair {
	collide.once.Do(func() {
		type h32 struct {
			name string
			f    func(s string) uint32
		}
		poly := func(k uint32, init uint32) func(string) uint32 {
			return func(s string) uint32 {
				h := init
				for i := 0; i < len(s); i++ {
					h = h*k + uint32(s[i])
				}
				return h
			}
		}
		castagnoli := crc32.MakeTable(crc32.Castagnoli)
		hs := []h32{
			{"FNV-1a/32", func(s string) uint32 { h := fnv.New32a(); h.Write([]byte(s)); return h.Sum32() }},
			{"FNV-1/32", func(s string) uint32 { h := fnv.New32(); h.Write([]byte(s)); return h.Sum32() }},
			{"CRC-32 (IEEE)", func(s string) uint32 { return crc32.ChecksumIEEE([]byte(s)) }},
			{"CRC-32C", func(s string) uint32 { return crc32.Checksum([]byte(s), castagnoli) }},
			{"Adler-32", func(s string) uint32 { return adler32.Checksum([]byte(s)) }},
			{"x31 (String.hashCode)", poly(31, 0)},
			{"x33 (djb2)", poly(33, 5381)},
			{"x65599 (sdbm)", poly(65599, 0)},
			{"x131", poly(131, 0)},
		}
		const length, want = 30, 3
		for _, h := range hs {
			seen := map[uint32]string{}
			found := 0
			for i := uint64(0); i < 1500000 && found < want; i++ {
				s := Fill(i, length, "ACGT")
				k := h.f(s)
				if t, ok := seen[k]; ok && t != s {
					collide.pairs = append(collide.pairs, CollidingPair{Checksum: h.name, A: t, B: s})
					found++
					continue
				}
				seen[k] = s
			}
		}
	})
	return collide.pairs
}
