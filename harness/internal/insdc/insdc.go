// Package insdc is the harness's reference for INSDC feature locations: an AST, a printer,
// an evaluator against a parent sequence, a strict parser and generators.
// Grammar covered (INSDC Feature Table Definition, section 3.4, the operators the property names):
//
//	location := span | single | "complement(" location ")" | "join(" location ("," location)+ ")"
//	span     := ["<"] n ".." [">"] m        single := n
package insdc

import (
	"fmt"
	"strconv"
	"strings"

	"github.com/TimothyStiles/poly"
	"pgregory.net/rapid"
	"verifharness/internal/ref"
	"verifharness/internal/vk"
)

type Node struct {
	Kind string `json:"k"`           // span | single | complement | join
	A    int    `json:"a,omitempty"` // 1-based inclusive
	B    int    `json:"b,omitempty"`
	P5   bool   `json:"p5,omitempty"` // "<" before the start
	P3   bool   `json:"p3,omitempty"` // ">" before the end
	Kids []Node `json:"kids,omitempty"`
}

func Span(a, b int) Node     { return Node{Kind: "span", A: a, B: b} }
func Single(a int) Node      { return Node{Kind: "single", A: a, B: a} }
func Complement(n Node) Node { return Node{Kind: "complement", Kids: []Node{n}} }
func Join(kids ...Node) Node { return Node{Kind: "join", Kids: kids} }
func (n Node) IsLeaf() bool  { return n.Kind == "span" || n.Kind == "single" }
func (n Node) Operators() int {
	c := 0
	if !n.IsLeaf() {
		c = 1
	}
	for _, k := range n.Kids {
		c += k.Operators()
	}
	return c
}

// Text prints the location in INSDC syntax.
func (n Node) Text() string {
	switch n.Kind {
	case "span":
		s := ""
		if n.P5 {
			s = "<"
		}
		s += strconv.Itoa(n.A) + ".."
		if n.P3 {
			s += ">"
		}
		return s + strconv.Itoa(n.B)
	case "single":
		return strconv.Itoa(n.A)
	case "complement":
		return "complement(" + n.Kids[0].Text() + ")"
	case "join":
		parts := make([]string, len(n.Kids))
		for i, k := range n.Kids {
			parts[i] = k.Text()
		}
		return "join(" + strings.Join(parts, ",") + ")"
	}
	return "?"
}

// Eval reads the location against the parent: spans are 1-based inclusive, join concatenates
// in order, complement is the reverse complement; partial markers do not change the bases.
func (n Node) Eval(parent string) string {
	switch n.Kind {
	case "span":
		return parent[n.A-1 : n.B]
	case "single":
		return parent[n.A-1 : n.A]
	case "complement":
		return ref.RevComp(n.Kids[0].Eval(parent))
	case "join":
		var b strings.Builder
		for _, k := range n.Kids {
			b.WriteString(k.Eval(parent))
		}
		return b.String()
	}
	return ""
}

// Marker is the partiality of one leaf, in left-to-right order of the text.
type Marker struct {
	A, B   int
	P5, P3 bool
}

func (n Node) Markers() []Marker {
	if n.IsLeaf() {
		return []Marker{{n.A, n.B, n.P5, n.P3}}
	}
	var out []Marker
	for _, k := range n.Kids {
		out = append(out, k.Markers()...)
	}
	return out
}

// Segment is one stranded span of a location in reading order, with the partial markers written on it.
type Segment struct {
	A, B    int
	Reverse bool
	P5, P3  bool
}

// Segments resolves the expression to its stranded spans in reading order: a join reads its operands one after the
// other, a complement reads its operand backwards on the other strand. Two expressions with the same segments denote
// the same bases, read the same way, with the same partial ends - whatever their nesting (complement(join(a,b)) and
// join(complement(b),complement(a)) have the same segments).
func (n Node) Segments() []Segment {
	if n.IsLeaf() {
		return []Segment{{A: n.A, B: n.B, P5: n.P5, P3: n.P3}}
	}
	var out []Segment
	for _, k := range n.Kids {
		out = append(out, k.Segments()...)
	}
	if n.Kind == "complement" {
		out = flipSegments(out)
	}
	return out
}

func flipSegments(s []Segment) []Segment {
	out := make([]Segment, len(s))
	for i, x := range s {
		x.Reverse = !x.Reverse
		out[len(s)-1-i] = x
	}
	return out
}

// StructureSegments is Segments for poly's representation.
func StructureSegments(l poly.Location) []Segment {
	var out []Segment
	if len(l.SubLocations) == 0 {
		out = []Segment{{A: l.Start + 1, B: l.End, P5: l.FivePrimePartial, P3: l.ThreePrimePartial}}
	} else {
		for _, s := range l.SubLocations {
			out = append(out, StructureSegments(s)...)
		}
	}
	if l.Complement {
		out = flipSegments(out)
	}
	return out
}

// SameSegments compares two segment lists.
func SameSegments(a, b []Segment) bool {
	if len(a) != len(b) {
		return false
	}
	for i := range a {
		if a[i] != b[i] {
			return false
		}
	}
	return true
}

func (n Node) HasP3() bool {
	for _, m := range n.Markers() {
		if m.P3 {
			return true
		}
	}
	return false
}

func (n Node) MaxPos() int {
	m := n.B
	for _, k := range n.Kids {
		m = max(m, k.MaxPos())
	}
	return m
}

// Structure assembles the location as a poly.Location the way poly's own parser represents it:
// a leaf carries [Start,End) zero-based; complement is a flag on its operand; join is a node
// with SubLocations.
func (n Node) Structure() poly.Location {
	switch n.Kind {
	case "span":
		return poly.Location{Start: n.A - 1, End: n.B, FivePrimePartial: n.P5, ThreePrimePartial: n.P3}
	case "single":
		return poly.Location{Start: n.A - 1, End: n.A}
	case "complement":
		l := n.Kids[0].Structure()
		l.Complement = true
		return l
	case "join":
		l := poly.Location{Join: true}
		for _, k := range n.Kids {
			l.SubLocations = append(l.SubLocations, k.Structure())
		}
		return l
	}
	return poly.Location{}
}

// StructureMarkers lists the leaf partial flags of a poly.Location in order.
func StructureMarkers(l poly.Location) []Marker {
	if len(l.SubLocations) == 0 {
		return []Marker{{l.Start + 1, l.End, l.FivePrimePartial, l.ThreePrimePartial}}
	}
	var out []Marker
	for _, s := range l.SubLocations {
		out = append(out, StructureMarkers(s)...)
	}
	return out
}

// ParseStrict parses INSDC location text; anything outside the grammar is an error.
func ParseStrict(s string) (Node, error) {
	p := &parser{s: s}
	n, err := p.location()
	if err != nil {
		return Node{}, err
	}
	if p.i != len(s) {
		return Node{}, fmt.Errorf("unexpected %q at offset %d of %q", s[p.i:], p.i, s)
	}
	return n, nil
}

type parser struct {
	s string
	i int
}

func (p *parser) number() (int, error) {
	st := p.i
	for p.i < len(p.s) && p.s[p.i] >= '0' && p.s[p.i] <= '9' {
		p.i++
	}
	if st == p.i {
		return 0, fmt.Errorf("number expected at offset %d of %q", st, p.s)
	}
	v, err := strconv.Atoi(p.s[st:p.i])
	if err != nil || v < 1 {
		return 0, fmt.Errorf("bad position %q in %q", p.s[st:p.i], p.s)
	}
	return v, nil
}

func (p *parser) lit(x string) bool {
	if strings.HasPrefix(p.s[p.i:], x) {
		p.i += len(x)
		return true
	}
	return false
}

func (p *parser) location() (Node, error) {
	switch {
	case p.lit("complement("):
		k, err := p.location()
		if err != nil {
			return Node{}, err
		}
		if !p.lit(")") {
			return Node{}, fmt.Errorf("')' expected at offset %d of %q", p.i, p.s)
		}
		return Complement(k), nil
	case p.lit("join("):
		var kids []Node
		for {
			k, err := p.location()
			if err != nil {
				return Node{}, err
			}
			kids = append(kids, k)
			if p.lit(",") {
				continue
			}
			if p.lit(")") {
				break
			}
			return Node{}, fmt.Errorf("',' or ')' expected at offset %d of %q", p.i, p.s)
		}
		if len(kids) < 2 {
			return Node{}, fmt.Errorf("join needs at least two operands in %q", p.s)
		}
		return Join(kids...), nil
	}
	n := Node{Kind: "span"}
	n.P5 = p.lit("<")
	a, err := p.number()
	if err != nil {
		return Node{}, err
	}
	n.A = a
	if !p.lit("..") {
		if n.P5 {
			return Node{}, fmt.Errorf("'..' expected after partial start at offset %d of %q", p.i, p.s)
		}
		return Single(a), nil
	}
	n.P3 = p.lit(">")
	b, err := p.number()
	if err != nil {
		return Node{}, err
	}
	n.B = b
	if b < a {
		return Node{}, fmt.Errorf("span %d..%d runs backwards in %q", a, b, p.s)
	}
	return n, nil
}

// Draw draws a location over a parent of n bases: depth <= maxDepth, joins of 2..6 operands,
// optional partial markers on spans, no complement directly inside a complement.
func Draw(t *rapid.T, name string, n, maxDepth int) Node {
	// one location in twenty-five (of those that may nest at least twice) is bushy: every operand of every join down
	// to the last level is itself a join, with 2..6 operands at each level - up to 6^maxDepth leaves. The ordinary draw
	// stops at a leaf half of the time at every node, so that a location with more than a few dozen leaves never comes up.
	if maxDepth >= 2 && rapid.IntRange(0, 24).Draw(t, name+"_bushy") == 0 {
		return drawBushy(t, name, n, maxDepth, true)
	}
	return draw(t, name, n, maxDepth, true)
}

func drawBushy(t *rapid.T, name string, n, depth int, allowComplement bool) Node {
	if depth == 0 {
		return drawLeaf(t, name, n)
	}
	if allowComplement && depth >= 2 && rapid.IntRange(0, 5).Draw(t, name+"_complemented") == 0 {
		return Complement(drawBushy(t, name+"c", n, depth-1, false))
	}
	kids := make([]Node, rapid.IntRange(2, 6).Draw(t, name+"_arity"))
	for i := range kids {
		kn := fmt.Sprintf("%sj%d", name, i)
		if depth == 1 && rapid.IntRange(0, 3).Draw(t, kn+"_minus") == 0 {
			kids[i] = Complement(drawLeaf(t, kn, n))
		} else {
			kids[i] = drawBushy(t, kn, n, depth-1, true)
		}
	}
	return Join(kids...)
}

// drawPos draws a coordinate in [lo, hi]; on long parents one in four is an edge value (a power of
// two or ten, a multiple of 1024 or of a line width, an end of the range, each +-1).
func drawPos(t *rapid.T, name string, lo, hi int) int {
	if hi-lo > 64 && rapid.IntRange(0, 3).Draw(t, name+"_edge") == 0 {
		e := vk.EdgeSizes(lo, hi)
		return e[rapid.IntRange(0, len(e)-1).Draw(t, name+"_edge_index")]
	}
	return rapid.IntRange(lo, hi).Draw(t, name)
}

func drawLeaf(t *rapid.T, name string, n int) Node {
	if rapid.IntRange(0, 4).Draw(t, name+"_single") == 0 {
		return Single(drawPos(t, name+"_pos", 1, n))
	}
	a := drawPos(t, name+"_start", 1, n)
	// ends biased to the parent's end and to short spans
	var b int
	switch rapid.IntRange(0, 3).Draw(t, name+"_end_kind") {
	case 0:
		b = n
	case 1:
		b = min(n, a+rapid.IntRange(0, 12).Draw(t, name+"_short"))
	default:
		b = drawPos(t, name+"_end", a, n)
	}
	s := Span(a, b)
	if rapid.IntRange(0, 5).Draw(t, name+"_partial") == 0 {
		s.P5 = rapid.Bool().Draw(t, name+"_p5")
		s.P3 = rapid.Bool().Draw(t, name+"_p3")
	}
	return s
}

func draw(t *rapid.T, name string, n, depth int, allowComplement bool) Node {
	kind := 0
	if depth > 0 {
		kind = rapid.IntRange(0, 5).Draw(t, name+"_kind")
	}
	switch {
	case kind <= 2 || depth == 0:
		return drawLeaf(t, name, n)
	case kind == 3 && allowComplement:
		return Complement(draw(t, name+"c", n, depth-1, false))
	default:
		k := rapid.IntRange(2, 6).Draw(t, name+"_arity")
		if depth >= 3 {
			k = min(k, 3) // keep deep trees from exploding; wide joins occur at the lower levels
		}
		kids := make([]Node, k)
		for i := range kids {
			kids[i] = draw(t, fmt.Sprintf("%sj%d", name, i), n, depth-1, true)
		}
		return Join(kids...)
	}
}

// Enumerate calls yield for every expression over the given leaves with at most maxOps
// operators and at most maxLeaves leaves; joins have 2 or 3 operands; complement is not applied
// directly to a complement. It stops when yield returns false and reports whether it finished.
func Enumerate(leaves []Node, maxOps, maxLeaves int, yield func(Node) bool) bool {
	var gen func(ops, nl int, allowComplement bool, emit func(n Node, usedOps, usedLeaves int) bool) bool
	gen = func(ops, nl int, allowComplement bool, emit func(Node, int, int) bool) bool {
		if nl < 1 {
			return true
		}
		for _, l := range leaves {
			if !emit(l, 0, 1) {
				return false
			}
		}
		if ops < 1 {
			return true
		}
		if allowComplement {
			if !gen(ops-1, nl, false, func(k Node, uo, ul int) bool { return emit(Complement(k), uo+1, ul) }) {
				return false
			}
		}
		if nl >= 2 {
			// binary join
			if !gen(ops-1, nl-1, true, func(a Node, ao, al int) bool {
				return gen(ops-1-ao, nl-al, true, func(b Node, bo, bl int) bool { return emit(Join(a, b), ao+bo+1, al+bl) })
			}) {
				return false
			}
		}
		if nl >= 3 {
			if !gen(ops-1, nl-2, true, func(a Node, ao, al int) bool {
				return gen(ops-1-ao, nl-al-1, true, func(b Node, bo, bl int) bool {
					return gen(ops-1-ao-bo, nl-al-bl, true, func(c Node, co, cl int) bool { return emit(Join(a, b, c), ao+bo+co+1, al+bl+cl) })
				})
			}) {
				return false
			}
		}
		return true
	}
	return gen(maxOps, maxLeaves, true, func(n Node, _, _ int) bool { return yield(n) })
}

// AllLeaves lists every span and single base over a parent of n bases (no partial markers).
func AllLeaves(n int) []Node {
	var out []Node
	for a := 1; a <= n; a++ {
		out = append(out, Single(a))
		for b := a; b <= n; b++ {
			out = append(out, Span(a, b))
		}
	}
	return out
}
