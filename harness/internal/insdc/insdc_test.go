package insdc

import "testing"

// harness self-test: printer and strict parser are inverse on the enumerated space, and the
// evaluator agrees with hand-computed readings.
func TestPrintParseRoundTrip(t *testing.T) {
	n := 0
	Enumerate(AllLeaves(4), 2, 3, func(x Node) bool {
		n++
		back, err := ParseStrict(x.Text())
		if err != nil {
			t.Fatalf("%s: %v", x.Text(), err)
		}
		if back.Text() != x.Text() {
			t.Fatalf("%s parsed and printed as %s", x.Text(), back.Text())
		}
		return true
	})
	if n < 1000 {
		t.Fatalf("only %d expressions enumerated", n)
	}
	for _, bad := range []string{"", "1..", "..5", "5..1", "1..5>", "join(1..2)", "complement(1..2", "join(1..2,)", "1.5", "1^2", "order(1..2,3..4)", "0..3", "<5", "1..2 "} {
		if _, err := ParseStrict(bad); err == nil {
			t.Fatalf("strict parser accepts %q", bad)
		}
	}
}

func TestEval(t *testing.T) {
	parent := "ACGTTGCA"
	for text, want := range map[string]string{
		"1..3": "ACG", "5": "T", "complement(1..3)": "CGT", "join(1..2,7..8)": "ACCA", "join(1..5,complement(7..8))": "ACGTTTG",
		"complement(join(1..2,7..8))": "TGGT", "<1..>3": "ACG", "join(complement(1..2),complement(join(3,5..6)))": "GTCAC",
	} {
		n, err := ParseStrict(text)
		if err != nil {
			t.Fatalf("%s: %v", text, err)
		}
		if got := n.Eval(parent); got != want {
			t.Fatalf("%s on %s = %s, want %s", text, parent, got, want)
		}
	}
}

func TestSegmentsIgnoreNesting(t *testing.T) {
	a, b := Span(3, 9), Span(12, 20)
	a.P5 = true
	x := Complement(Join(a, b))
	y := Join(Complement(b), Complement(a))
	if !SameSegments(x.Segments(), y.Segments()) {
		t.Errorf("segments differ: %+v vs %+v", x.Segments(), y.Segments())
	}
	if SameSegments(x.Segments(), Join(Complement(a), Complement(b)).Segments()) {
		t.Errorf("operand order must matter")
	}
	if !SameSegments(StructureSegments(x.Structure()), x.Segments()) {
		t.Errorf("structure segments differ from node segments")
	}
	z := Complement(Join(Single(1), Complement(Join(Single(1), a))))
	w := Complement(Join(Single(1), Complement(a), Complement(Single(1))))
	if !SameSegments(z.Segments(), w.Segments()) {
		t.Errorf("distributed complement: %+v vs %+v", z.Segments(), w.Segments())
	}
}
