// C16 — REBASE parsing recovers every enzyme record and decodes suppliers.
package c16

import (
	"encoding/json"
	"fmt"
	"os"
	"path/filepath"
	"strings"
	"testing"

	"github.com/TimothyStiles/poly/io/rebase"
	"pgregory.net/rapid"
	"verifharness/internal/vk"
)

type Supplier struct {
	Code string `json:"code"` // one character
	Name string `json:"name"`
}

type Rec struct {
	Name    string   `json:"name"`
	Iso     string   `json:"isoschizomers"` // the <2> line as written
	Site    string   `json:"recognition"`
	Meth    string   `json:"methylation"`
	Org     string   `json:"organism"`
	Src     string   `json:"source"`
	Letters string   `json:"suppliers"`  // the <7> line as written
	Refs    []string `json:"references"` // first line follows <8>, the rest are untagged lines
}

type Case struct {
	Header       []string   `json:"header"`
	Tabs         bool       `json:"tabs"` // supplier lines indented with tabs instead of 16 spaces
	// MixedIndent (non-zero): every supplier line has an indentation of its own (three bits per line choose among 16, 8,
	// 4 and 17 spaces, one tab and two tabs): a table edited by hand, or pasted together from two releases
	MixedIndent uint64 `json:"mixed_indent,omitempty"`
	Suppliers    []Supplier `json:"supplier_table"`
	Records      []Rec      `json:"records"`
	BlankLines   int        `json:"blank_lines"` // blank lines between records
	FinalNewline bool       `json:"final_newline"`
}

const tableHeader = "REBASE codes for commercial sources of enzymes"

// write lays the listing out in REBASE format 31 (withrefm).
func write(c Case) []byte {
	var b strings.Builder
	for _, h := range c.Header {
		b.WriteString(h + "\n")
	}
	b.WriteString(tableHeader + "\n\n")
	indent := "                "
	if c.Tabs {
		indent = "\t\t"
	}
	for i, s := range c.Suppliers {
		in := indent
		if c.MixedIndent != 0 {
			in = []string{"                ", "        ", "    ", "                 ", "\t", "\t\t"}[(c.MixedIndent>>(3*uint(i)%63))&7%6]
		}
		b.WriteString(in + s.Code + "        " + s.Name + "\n")
	}
	b.WriteString("\n")
	for _, r := range c.Records {
		fmt.Fprintf(&b, "<1>%s\n<2>%s\n<3>%s\n<4>%s\n<5>%s\n<6>%s\n<7>%s\n", r.Name, r.Iso, r.Site, r.Meth, r.Org, r.Src, r.Letters)
		first := ""
		if len(r.Refs) > 0 {
			first = r.Refs[0]
		}
		b.WriteString("<8>" + first + "\n")
		for _, x := range r.Refs[min(1, len(r.Refs)):] {
			b.WriteString(x + "\n")
		}
		b.WriteString(strings.Repeat("\n", c.BlankLines))
	}
	out := b.String()
	if !c.FinalNewline {
		out = strings.TrimSuffix(out, "\n")
	}
	return []byte(out)
}

func sameList(a, b []string) bool {
	if len(a) != len(b) {
		return false
	}
	for i := range a {
		if a[i] != b[i] {
			return false
		}
	}
	return true
}

func compare(what string, c Case, got map[string]rebase.Enzyme) error {
	table := map[rune]string{}
	for _, s := range c.Suppliers {
		table[rune(s.Code[0])] = s.Name
	}
	if len(got) != len(c.Records) {
		return vk.Errf("%s: %d entries for %d records", what, len(got), len(c.Records))
	}
	for _, r := range c.Records {
		e, ok := got[r.Name]
		if !ok {
			return vk.Errf("%s: no entry for enzyme %q", what, r.Name)
		}
		first := ""
		if len(r.Refs) > 0 {
			first = r.Refs[0]
		}
		if e.Name != r.Name || e.RecognitionSequence != r.Site || e.MethylationSite != r.Meth || e.MicroOrganism != r.Org || e.Source != r.Src || e.References != first {
			return vk.Errf("%s: enzyme %q parsed as {name %q, site %q, methylation %q, organism %q, source %q, reference %q}; written {%q, %q, %q, %q, %q, %q}", what, r.Name,
				e.Name, e.RecognitionSequence, e.MethylationSite, e.MicroOrganism, e.Source, e.References, r.Name, r.Site, r.Meth, r.Org, r.Src, first)
		}
		wantIso := strings.Split(r.Iso, ",")
		if !(sameList(e.Isoschizomers, wantIso) || (r.Iso == "" && len(e.Isoschizomers) == 0)) {
			return vk.Errf("%s: enzyme %q isoschizomers %q, written %q", what, r.Name, e.Isoschizomers, r.Iso)
		}
		var wantSup []string
		for _, l := range r.Letters {
			wantSup = append(wantSup, table[l])
		}
		if !sameList(e.CommercialAvailability, wantSup) {
			return vk.Errf("%s: enzyme %q supplier letters %q decoded to %q; the file's own table gives %q", what, r.Name, r.Letters, e.CommercialAvailability, wantSup)
		}
	}
	return nil
}

func clipText(s string) string {
	if len(s) > 200 {
		return s[:200] + "…"
	}
	return s
}

func check(c Case) error {
	text := write(c)
	// the parser gets a buffer of its own, which is overwritten once it has returned (a caller re-using its read
	// buffer): what Parse returned must not change with it
	buf, intact := vk.Guarded(text) // the front part of a larger buffer (two listings in one file image, say)
	got := rebase.Parse(buf)
	if err := intact(); err != nil {
		return fmt.Errorf("Parse: %v", err)
	}
	vk.Scribble(buf)
	if err := compare("Parse", c, got); err != nil {
		return err
	}
	// JSON export parses back to the same map
	var back map[string]rebase.Enzyme
	exported := rebase.Export(got)
	snapshot := string(exported)
	// the bytes handed back stay what they are when other maps are exported before they are read
	_ = rebase.Export(map[string]rebase.Enzyme{"OtherI": {Name: "OtherI", RecognitionSequence: strings.Repeat("N", len(snapshot)/4)}})
	_ = rebase.Export(map[string]rebase.Enzyme{"X": {Name: "X"}})
	if string(exported) != snapshot {
		return vk.Errf("the bytes returned by Export changed when other maps were exported afterwards: %q, was %q", clipText(string(exported)), clipText(snapshot))
	}
	if err := json.Unmarshal(exported, &back); err != nil {
		return vk.Errf("Export is not valid JSON: %v", err)
	}
	if err := compare("json.Unmarshal(Export(Parse))", c, back); err != nil {
		return err
	}
	p := filepath.Join(vk.WorkDir(), "rebase.txt")
	defer os.Remove(p)
	if err := os.WriteFile(p, text, 0o644); err != nil {
		return vk.Harnessf("write %s: %v", p, err)
	}
	viaFile, err := rebase.Read(p)
	if err != nil {
		return vk.Errf("Read returned error %v", err)
	}
	if err := compare("Read", c, viaFile); err != nil {
		return err
	}
	// the results belong to the caller: entries overwritten, their lists written into, one entry added - and the same
	// listing parses again to what it says
	for _, m := range []map[string]rebase.Enzyme{got, back, viaFile} {
		for k, e := range m {
			for i := range e.CommercialAvailability {
				e.CommercialAvailability[i] = "overwritten by the caller"
			}
			for i := range e.Isoschizomers {
				e.Isoschizomers[i] = "X"
			}
			e.CommercialAvailability = append(e.CommercialAvailability, "appended by the caller")
			e.Name, e.References = "edited", "edited"
			m[k] = e
		}
		m["VerifI"] = rebase.Enzyme{Name: "VerifI"}
	}
	again := rebase.Parse(append([]byte{}, text...))
	if err := compare("Parse, a second time, after the caller had written into the earlier results", c, again); err != nil {
		return err
	}
	// kept by the caller while other listings are parsed (vk.Hold)
	vk.Hold("the map rebase.Parse returned", func() error { return compare("the listing parsed earlier", c, again) })
	return nil
}

func nonTrivial(c Case) bool {
	for _, r := range c.Records {
		if r.Letters != "" && r.Iso != "" {
			return true
		}
	}
	return false
}

func labels(c Case) []string {
	l := []string{}
	if c.Tabs {
		l = append(l, "tab-indented table")
	} else {
		l = append(l, "space-indented table")
	}
	switch n := len(c.Records); {
	case n == 0:
		l = append(l, "records:0")
	case n <= 10:
		l = append(l, "records:1-10")
	default:
		l = append(l, "records:>10")
	}
	usesFirst, emptyField, extraRefs := false, false, false
	for _, r := range c.Records {
		if len(c.Suppliers) > 0 && strings.Contains(r.Letters, c.Suppliers[0].Code) {
			usesFirst = true
		}
		if r.Site == "" || r.Org == "" || r.Src == "" || r.Iso == "" {
			emptyField = true
		}
		if len(r.Refs) > 1 {
			extraRefs = true
		}
	}
	longest := 0
	for _, ln := range strings.Split(string(write(c)), "\n") {
		longest = max(longest, len(ln))
	}
	switch {
	case longest > 65536:
		l = append(l, "longest line > 65536 bytes")
	case longest > 4096:
		l = append(l, "longest line 4097..65536 bytes")
	}
	if usesFirst {
		l = append(l, "a record uses the first supplier of the table")
	}
	if emptyField {
		l = append(l, "has empty field")
	}
	if extraRefs {
		l = append(l, "has untagged reference lines")
	}
	return l
}

func sample(c Case) any {
	text := string(write(c))
	if len(text) > 900 {
		text = text[:600] + fmt.Sprintf("…(%d bytes)…", len(text)) + text[len(text)-200:]
	}
	return map[string]any{"listing": text, "records": len(c.Records), "suppliers": len(c.Suppliers), "tabs": c.Tabs}
}

// text without '<' (so no <n> tag can occur inside a field) and without line breaks
var textGen = rapid.OneOf(
	rapid.StringMatching(`[ -;=-~]{0,40}`),
	rapid.SampledFrom(vk.Placeholders), // "unknown", "?", "-", "none", "0" ...: text like any other
	rapid.StringMatching(`[A-Z][a-z]{2,10}( [a-z]{2,10}){0,3}`),
	rapid.Just(""),
)
var siteGen = rapid.OneOf(rapid.StringMatching(`[ACGTRYKMSWBDHVN^]{4,12}( \([0-9]{1,2}/[0-9]{1,2}\))?`), rapid.Just(""), rapid.Just("?"))
var enzymeNameGen = rapid.StringMatching(`[A-Z][a-z]{2}[A-Z0-9]{0,3}[IVX]{1,4}`)

func gen(t *rapid.T) Case {
	c := Case{Tabs: rapid.Bool().Draw(t, "tabs"), BlankLines: rapid.IntRange(0, 2).Draw(t, "blank_lines"), FinalNewline: rapid.Bool().Draw(t, "final_newline")}
	if rapid.IntRange(0, 3).Draw(t, "mixed_indent") == 0 {
		c.MixedIndent = rapid.Uint64Range(1, 1<<63).Draw(t, "indent_per_line")
	}
	nh := rapid.IntRange(0, 12).Draw(t, "header_lines")
	for i := 0; i < nh; i++ {
		h := rapid.OneOf(textGen, rapid.SampledFrom([]string{"", " ", "REBASE version 104                                              withrefm.104", "                K        Takara (1/98)", "REBASE codes", "<ENZYME NAME>   Restriction enzyme name.", "<REFERENCES>only the primary references"})).Draw(t, "header_line")
		if h == tableHeader {
			h += "."
		}
		c.Header = append(c.Header, h)
	}
	if rapid.IntRange(0, 19).Draw(t, "long_header_line") == 0 {
		c.Header = append(c.Header, "note "+vk.Fill(rapid.Uint64().Draw(t, "long_header_fill"), vk.DrawSize(t, "long_header", 1000, 70000), "abcdefgh "))
	}
	codes := rapid.SliceOfNDistinct(rapid.SampledFrom(strings.Split("ABCDEFGHIJKLMNOPQRSTUVWXYZ", "")), 0, 20, func(s string) string { return s }).Draw(t, "supplier_codes")
	for _, code := range codes {
		name := rapid.StringMatching(`[A-Z][A-Za-z.,&-]{1,12}( [A-Za-z.,&-]{1,12}){0,3} \([0-9]{1,2}/[0-9]{2}\)`).Draw(t, "supplier_name")
		c.Suppliers = append(c.Suppliers, Supplier{Code: code, Name: name})
	}
	var n int
	switch rapid.IntRange(0, 9).Draw(t, "records_class") {
	case 0:
		n = rapid.IntRange(31, 300).Draw(t, "n_records_many")
	case 1:
		n = 0
	default:
		n = rapid.IntRange(1, 30).Draw(t, "n_records")
	}
	used := map[string]bool{}
	for i := 0; i < n; i++ {
		name := enzymeNameGen.Draw(t, "enzyme_name")
		if !used[""] && rapid.IntRange(0, 19).Draw(t, "empty_name") == 0 {
			name = "" // "each field possibly empty" includes <1>: at most one such record, keyed by the empty string
		}
		for used[name] {
			name += "I" // distinct by construction
		}
		used[name] = true
		r := Rec{Name: name, Site: siteGen.Draw(t, "site"), Meth: rapid.SampledFrom([]string{"", "3(6)", "-3(6)", "4(5)", "2(6),-2(6)", "?(5)"}).Draw(t, "methylation"),
			Org: textGen.Draw(t, "organism"), Src: textGen.Draw(t, "source")}
		ni := rapid.IntRange(0, 6).Draw(t, "n_isoschizomers")
		var iso []string
		for j := 0; j < ni; j++ {
			iso = append(iso, enzymeNameGen.Draw(t, "isoschizomer"))
		}
		// long lines: now and then a list of hundreds of isoschizomers, or an organism / source text of
		// thousands of characters (a REBASE field is one line however long it is)
		switch rapid.IntRange(0, 39).Draw(t, "long_field") {
		case 0:
			many := vk.DrawSize(t, "n_isoschizomers_many", 100, 3000)
			for j := 0; j < many; j++ {
				iso = append(iso, fmt.Sprintf("Iso%dI", j))
			}
		case 1:
			r.Org = "Bacillus " + vk.Fill(rapid.Uint64().Draw(t, "long_organism_fill"), vk.DrawSize(t, "long_organism", 1000, 70000), "abcdefgh ") + "x"
		case 2:
			r.Src = "ATCC " + vk.Fill(rapid.Uint64().Draw(t, "long_source_fill"), vk.DrawSize(t, "long_source", 1000, 70000), "0123456789 ") + "9"
		}
		r.Iso = strings.Join(iso, ",")
		if len(codes) > 0 {
			nl := rapid.IntRange(0, min(15, len(codes))).Draw(t, "n_supplier_letters")
			// letters in table order, as REBASE writes them, or in drawn order
			var pick []int
			if rapid.IntRange(0, 3).Draw(t, "letters_may_repeat") == 0 {
				pick = rapid.SliceOfN(rapid.IntRange(0, len(codes)-1), nl, nl).Draw(t, "supplier_letters_with_repeats")
			} else {
				pick = rapid.SliceOfNDistinct(rapid.IntRange(0, len(codes)-1), nl, nl, func(i int) int { return i }).Draw(t, "supplier_letters")
			}
			for _, k := range pick {
				r.Letters += codes[k]
			}
		}
		nr := rapid.IntRange(0, 3).Draw(t, "n_reference_lines")
		for j := 0; j < nr; j++ {
			ref := rapid.StringMatching(`[A-Z][a-z]{2,9}, [A-Z]\.(, [A-Z][a-z]{2,9}, [A-Z]\.){0,2}, \((19|20)[0-9]{2}\) [A-Z][a-z. ]{3,20}, vol\. [0-9]{1,3}, pp\. [0-9]{1,4}-[0-9]{1,4}\.`).Draw(t, "reference")
			r.Refs = append(r.Refs, ref)
		}
		c.Records = append(c.Records, r)
	}
	return c
}

var sub = vk.Register(&vk.Sub[Case]{Name: "listings", Gen: gen, Check: check, NonTrivial: nonTrivial, Labels: labels, Sample: sample})

func TestSub_listings(t *testing.T) { vk.RunRapid(t, sub) }

func TestReplay(t *testing.T) { vk.Replay(t) }

// native coverage-guided fuzzing over the same generator and oracle (thorough tier)
var subFuzz = vk.Register(&vk.Sub[Case]{Name: "listings_fuzz", Gen: gen, Check: check})

func FuzzSub_listings_fuzz(f *testing.F) { vk.RunFuzz(f, subFuzz) }

// ---------------------------------------------------------------------------------------
// corpus: the distributed sample listing, read by poly and by a reference format-31 reader.

type CorpusCase struct {
	File string `json:"file"`
}

func checkCorpus(c CorpusCase) error {
	path := vk.RepoPath(c.File)
	b, err := os.ReadFile(path)
	if err != nil {
		return vk.Harnessf("%v", err)
	}
	// reference reader: supplier table = lines "<indent><code><8 blanks><name>" after the header line;
	// records = runs of <1>..<8> lines
	lines := strings.Split(string(b), "\n")
	table := map[rune]string{}
	inTable := false
	var recs []Rec
	var cur *Rec
	for _, l := range lines {
		if l == tableHeader {
			inTable = true
			continue
		}
		if strings.HasPrefix(l, "<1>") {
			inTable = false
		}
		if inTable {
			t := strings.TrimLeft(l, " \t")
			if len(t) > 9 && strings.TrimSpace(t[1:9]) == "" {
				table[rune(t[0])] = t[9:]
			}
			continue
		}
		if len(l) >= 3 && l[0] == '<' && l[2] == '>' && l[1] >= '1' && l[1] <= '8' {
			v := l[3:]
			switch l[1] {
			case '1':
				recs = append(recs, Rec{Name: v})
				cur = &recs[len(recs)-1]
			case '2':
				cur.Iso = v
			case '3':
				cur.Site = v
			case '4':
				cur.Meth = v
			case '5':
				cur.Org = v
			case '6':
				cur.Src = v
			case '7':
				cur.Letters = v
			case '8':
				cur.Refs = []string{v}
			}
		}
	}
	cc := Case{Records: recs}
	for code, name := range table {
		cc.Suppliers = append(cc.Suppliers, Supplier{Code: string(code), Name: name})
	}
	if len(recs) < 10 || len(table) < 5 {
		return vk.Harnessf("reference reader found only %d records and %d suppliers in %s", len(recs), len(table), c.File)
	}
	got, err := rebase.Read(path)
	if err != nil {
		return vk.Errf("Read(%s): %v", c.File, err)
	}
	return compare("Read("+c.File+") vs reference reader", cc, got)
}

var subCorpus = vk.Register(&vk.Sub[CorpusCase]{Name: "corpus", Check: checkCorpus, NonTrivial: func(CorpusCase) bool { return true }})

func TestSub_corpus(t *testing.T) {
	vk.RunEnum(t, subCorpus, "the distributed sample io/rebase/data/rebase_test.txt (92 records)", true, func(yield func(CorpusCase) bool) {
		yield(CorpusCase{File: "io/rebase/data/rebase_test.txt"})
	})
}
