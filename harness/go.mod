module verifharness

go 1.23

require (
	github.com/TimothyStiles/poly v0.0.0
	pgregory.net/rapid v1.3.0
)

require lukechampine.com/blake3 v1.0.0

require (
	github.com/mitchellh/go-wordwrap v1.0.0 // indirect
	github.com/mroth/weightedrand v0.2.1 // indirect
)

replace github.com/TimothyStiles/poly => /repo
