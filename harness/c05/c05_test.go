// C05 — seqhash separates distinct molecules and follows the published v1 form.
package c05

import (
	"fmt"
	"strings"
	"testing"
	"unicode"

	"github.com/TimothyStiles/poly/seqhash"
	"pgregory.net/rapid"
	"verifharness/internal/ref"
	"verifharness/internal/vk"
)

type Case struct {
	Seq    vk.SeqSpec  `json:"seq"`
	Type   string      `json:"type"`
	Circ   bool        `json:"circular"`
	DS     bool        `json:"double_stranded"`
	Other  *vk.SeqSpec `json:"other,omitempty"`  // partner under the same flags: equal hash <=> same molecule
	Reject bool        `json:"reject,omitempty"` // the input must be rejected with an error and an empty hash
	// FoldAs (with Reject): the input holds a non-ASCII letter that Unicode case folding relates to a letter of the
	// alphabet (long s, dotless i, Kelvin sign). Either it is rejected, or it is read as that letter: then the hash
	// must be the hash of FoldAs. Being hashed as something else is the violation.
	FoldAs string `json:"fold_as,omitempty"`
}

const (
	nucleicAlphabet = "ATUGCYRSWKMBDHVNZ"
	proteinAlphabet = "ACDEFGHIKLMNPQRSTVWYUO*BXZ"
)

// canonical computes the v1 canonical representative from the declared molecule.
// ok=false when the reference has no opinion (strand clause on letters without a complement).
func canonical(seq, typ string, circ, ds bool) (string, bool) {
	u := strings.ToUpper(seq)
	if typ == "RNA" {
		u = strings.ReplaceAll(u, "U", "T")
	}
	if ds {
		if typ == "PROTEIN" || strings.ContainsAny(u, "UZ") {
			return "", false
		}
	}
	return ref.Canonical(u, circ, ds, ref.RevComp), true
}

// optionalLetters: poly takes U and Z under DNA and T and Z under RNA; the property does not say that it has to (it
// speaks of "the type's alphabet" and of what must be rejected). Such inputs are judged when they are accepted - the
// value must be the v1 form - and let pass when they are rejected.
func optionalLetters(s, typ string) bool {
	u := strings.ToUpper(s)
	switch typ {
	case "DNA":
		return strings.ContainsAny(u, "UZ")
	case "RNA":
		return strings.ContainsAny(u, "TZ")
	}
	return false
}

func tag(typ string, circ, ds bool) string {
	t := map[string]string{"DNA": "D", "RNA": "R", "PROTEIN": "P"}[typ]
	if circ {
		t += "C"
	} else {
		t += "L"
	}
	if ds {
		t += "D"
	} else {
		t += "S"
	}
	return t
}

func check(c Case) error {
	if msg := ref.Blake3SelfTest(); msg != "" {
		return vk.Harnessf("%s", msg)
	}
	s := c.Seq.String()
	// The same letters are first hashed as the other molecule types (results and errors discarded):
	// what a call returns must depend on its own arguments only, whatever was hashed before it.
	if len(s) <= 20000 {
		for _, typ := range []string{"PROTEIN", "DNA", "RNA"} {
			if typ != c.Type {
				_, _ = seqhash.Hash(s, typ, c.Circ, false)
				if c.DS && typ != "PROTEIN" {
					_, _ = seqhash.Hash(s, typ, c.Circ, true)
				}
			}
		}
	}
	if len(s) <= 20000 { // so are relatives the library has to reject part-way, and the steps of building s up
		for _, sp := range vk.Spoil(s, "J!"[len(s)%2]) {
			_, _ = seqhash.Hash(sp, c.Type, c.Circ, c.DS)
		}
		for _, st := range vk.Stems(s) {
			_, _ = seqhash.Hash(st, c.Type, c.Circ, c.DS)
		}
	}
	h, err := seqhash.Hash(s, c.Type, c.Circ, c.DS)
	if c.Reject {
		if err == nil && c.FoldAs != "" {
			if hf, errf := seqhash.Hash(c.FoldAs, c.Type, c.Circ, c.DS); errf == nil && hf == h {
				return nil // read as a case variant of an alphabet letter
			}
			return vk.Errf("Hash(%q, %q, circular=%v, doubleStranded=%v) = %q: a letter outside the alphabet is neither rejected nor is the input read as %q (the same with the letter's case-folding partner, or without the white space)", s, c.Type, c.Circ, c.DS, h, c.FoldAs)
		}
		if err == nil {
			return vk.Errf("Hash(%q, %q, circular=%v, doubleStranded=%v) = %q without an error; the input must be rejected", s, c.Type, c.Circ, c.DS, h)
		}
		if h != "" {
			return vk.Errf("Hash(%q, %q, ...) returned error %v together with a hash %q", s, c.Type, err, h)
		}
		return nil
	}
	if err != nil && s == "" {
		vk.Count("empty sequence declined by the library (not judged: the property speaks of accepted inputs)", 1)
		return nil
	}
	if err != nil && optionalLetters(s, c.Type) {
		vk.Count("inputs with a letter the library may or may not take under this type (U or Z as DNA, T or Z as RNA): rejected", 1)
		return nil
	}
	if err != nil {
		return vk.Errf("Hash(%q, %q, circular=%v, doubleStranded=%v) rejected a valid input: %v", s, c.Type, c.Circ, c.DS, err)
	}
	canon, ok := canonical(s, c.Type, c.Circ, c.DS)
	if !ok {
		return vk.Harnessf("generator produced a case the reference cannot judge: %+v", c)
	}
	want := "v1_" + tag(c.Type, c.Circ, c.DS) + "_" + ref.Blake3Hex([]byte(canon))
	if h != want {
		return vk.Errf("Hash(%q, %s, circular=%v, doubleStranded=%v) = %s; v1 form of canonical representative %q is %s", s, c.Type, c.Circ, c.DS, h, canon, want)
	}
	// point mutants of the same molecule - one letter in the middle replaced by another letter of the sequence, head
	// and tail as they were - each a fresh string of the same length, hashed, dropped and collected before the next
	if c.Circ && len(s) >= 64 && len(s) <= 20000 && c.Other == nil {
		if err := vk.Recycled(3, func(i int) string {
			b := []byte(s)
			at := len(b)/2 + i
			for k := 1; k < len(b); k++ {
				if o := b[(at+k*7)%len(b)]; o != b[at] {
					b[at] = o
					break
				}
			}
			return string(b)
		}, func(i int, mutant string) error {
			cm, ok := canonical(mutant, c.Type, c.Circ, c.DS)
			if !ok {
				return nil
			}
			hm, err := seqhash.Hash(mutant, c.Type, c.Circ, c.DS)
			if wantM := "v1_" + tag(c.Type, c.Circ, c.DS) + "_" + ref.Blake3Hex([]byte(cm)); err != nil || hm != wantM {
				return vk.Errf("Hash of a point mutant of the case's sequence (a fresh string of the same %d letters but one, hashed after the earlier ones were dropped and collected) = %s (err %v); v1 form of its canonical representative is %s", len(mutant), hm, err, wantM)
			}
			return nil
		}); err != nil {
			return err
		}
	}
	// the digest is of the UPPER-CASED canonical representative: the same letters in mixed case
	// (lower case at even, at odd, and at every third position) must give the same value
	if len(s) <= 20000 {
		for variant := 0; variant < 3; variant++ {
			b := []byte(s)
			for i := range b {
				if (variant < 2 && i%2 == variant) || (variant == 2 && i%3 == 0) {
					if b[i] >= 'A' && b[i] <= 'Z' {
						b[i] += 'a' - 'A'
					} else if b[i] >= 'a' && b[i] <= 'z' {
						b[i] -= 'a' - 'A'
					}
				}
			}
			if string(b) == s {
				continue
			}
			hv, err := seqhash.Hash(string(b), c.Type, c.Circ, c.DS)
			if err != nil {
				return vk.Errf("Hash(%q, %s, circular=%v, doubleStranded=%v) rejected a valid input: %v", string(b), c.Type, c.Circ, c.DS, err)
			}
			if hv != want {
				return vk.Errf("Hash(%q, %s, circular=%v, doubleStranded=%v) = %s; the same letters %q give %s (the v1 form of the upper-cased canonical representative %q)", string(b), c.Type, c.Circ, c.DS, hv, s, want, canon)
			}
		}
	}
	if c.Other != nil {
		o := c.Other.String()
		ho, err := seqhash.Hash(o, c.Type, c.Circ, c.DS)
		if err != nil && optionalLetters(o, c.Type) {
			return nil
		}
		if err != nil {
			return vk.Errf("Hash(%q, %s, ...) rejected a valid input: %v", o, c.Type, err)
		}
		co, _ := canonical(o, c.Type, c.Circ, c.DS)
		if (ho == h) != (co == canon) {
			return vk.Errf("%q and %q (%s circular=%v ds=%v): same molecule=%v but hashes %s / %s", s, o, c.Type, c.Circ, c.DS, co == canon, h, ho)
		}
	}
	return nil
}

func nonTrivial(c Case) bool {
	if c.Reject {
		return true
	}
	s := c.Seq.String()
	if c.Other != nil {
		return c.Other.String() != s
	}
	canon, ok := canonical(s, c.Type, c.Circ, c.DS)
	return ok && canon != strings.ToUpper(s) // its orbit has another member that is the representative
}

func labels(c Case) []string {
	l := []string{"type:" + c.Type, "flags:" + tag("DNA", c.Circ, c.DS)[1:]}
	if c.Reject {
		return append(l, "reject")
	}
	if c.Other != nil {
		a, _ := canonical(c.Seq.String(), c.Type, c.Circ, c.DS)
		b, _ := canonical(c.Other.String(), c.Type, c.Circ, c.DS)
		if a == b && c.Other.String() != c.Seq.String() {
			l = append(l, "pair:same-orbit-distinct-strings")
		} else if a != b {
			l = append(l, "pair:different-orbits")
		} else {
			l = append(l, "pair:identical")
		}
	}
	if n := len(c.Seq.String()); n > 1024 {
		l = append(l, "len>1024 (multi-chunk BLAKE3)")
	}
	return l
}

func sample(c Case) any {
	m := map[string]any{"sequence": c.Seq.String(), "type": c.Type, "circular": c.Circ, "double_stranded": c.DS, "must_reject": c.Reject}
	if c.Other != nil {
		m["partner"] = c.Other.String()
	}
	return m
}

var subValue = vk.Register(&vk.Sub[Case]{Name: "value", Check: check, NonTrivial: nonTrivial, Sample: sample})
var subPartition = vk.Register(&vk.Sub[Case]{Name: "partition", Check: check, NonTrivial: nonTrivial, Sample: sample})
var subReject = vk.Register(&vk.Sub[Case]{Name: "reject", Check: check, NonTrivial: nonTrivial, Sample: sample})
var subRandom = vk.Register(&vk.Sub[Case]{Name: "random", Gen: gen, Check: check, NonTrivial: nonTrivial, Labels: labels, Sample: sample})

var flagPairs = [][2]bool{{false, false}, {false, true}, {true, false}, {true, true}}

// value: every string of the listed spaces under every applicable flag pair has exactly the v1 form.
func TestSub_value(t *testing.T) {
	acgtMax := vk.Pick(7, 9)
	space := fmt.Sprintf("DNA: all ACGT strings 0..%d x 4 flag pairs; RNA: all ACGU strings 0..%d x 4 flag pairs; 15-code strings 0..3 x 4 flag pairs; single-stranded strings over ACGTUZ 0..4; all protein-alphabet strings 0..3 x {linear, circular}", acgtMax, min(acgtMax, 7))
	vk.RunEnum(t, subValue, space, true, func(yield func(Case) bool) {
		for _, fp := range flagPairs {
			if !vk.EachString("ACGT", 0, acgtMax, func(s string) bool {
				return yield(Case{Seq: vk.SeqSpec{Lit: s}, Type: "DNA", Circ: fp[0], DS: fp[1]})
			}) {
				return
			}
			if !vk.EachString("ACGU", 0, min(acgtMax, 7), func(s string) bool {
				return yield(Case{Seq: vk.SeqSpec{Lit: s}, Type: "RNA", Circ: fp[0], DS: fp[1]})
			}) {
				return
			}
			if !vk.EachString(ref.IUPACCodes, 0, 3, func(s string) bool {
				return yield(Case{Seq: vk.SeqSpec{Lit: s}, Type: "DNA", Circ: fp[0], DS: fp[1]})
			}) {
				return
			}
		}
		for _, circ := range []bool{false, true} {
			for _, typ := range []string{"DNA", "RNA"} {
				if !vk.EachString("ACGTUZ", 0, 4, func(s string) bool {
					return yield(Case{Seq: vk.SeqSpec{Lit: s}, Type: typ, Circ: circ})
				}) {
					return
				}
			}
			if !vk.EachString(proteinAlphabet, 0, 3, func(s string) bool {
				return yield(Case{Seq: vk.SeqSpec{Lit: s}, Type: "PROTEIN", Circ: circ})
			}) {
				return
			}
		}
	})
}

// partition: for every n and flag pair, the partition of all 4^n strings by hash equals the
// partition by brute-force canonical form (needs no BLAKE3 reference).
func TestSub_partition(t *testing.T) {
	maxN := vk.Pick(7, 9)
	space := fmt.Sprintf("partition of all 4^n DNA strings by hash vs by brute-force orbit, n = 0..%d, 4 flag pairs", maxN)
	vk.RunManual(t, subPartition, space, true, func(m *vk.Manual[Case]) {
		unit := 0
		for n := maxN; n >= 0; n-- {
			for _, fp := range flagPairs {
				unit++
				if !vk.Mine(unit) {
					continue
				}
				byHash := map[string][2]string{}  // hash -> (first string, its canonical form)
				byCanon := map[string][2]string{} // canonical -> (first string, its hash)
				ok := vk.EachString("ACGT", n, n, func(s string) bool {
					c := Case{Seq: vk.SeqSpec{Lit: s}, Type: "DNA", Circ: fp[0], DS: fp[1]}
					m.Observe(c)
					h, err := seqhash.Hash(s, "DNA", fp[0], fp[1])
					if err != nil && s == "" {
						return true // an empty sequence may be declined
					}
					if err != nil {
						m.Fail(c, fmt.Errorf("Hash(%q) rejected a valid input: %v", s, err))
						return false
					}
					canon := ref.Canonical(s, fp[0], fp[1], ref.RevComp)
					if prev, seen := byHash[h]; seen && prev[1] != canon {
						c.Other = &vk.SeqSpec{Lit: prev[0]}
						m.Fail(c, fmt.Errorf("merge: %q and %q are different molecules (circular=%v ds=%v) but share the hash %s", s, prev[0], fp[0], fp[1], h))
						return false
					} else if !seen {
						byHash[h] = [2]string{s, canon}
					}
					if prev, seen := byCanon[canon]; seen && prev[1] != h {
						c.Other = &vk.SeqSpec{Lit: prev[0]}
						m.Fail(c, fmt.Errorf("split: %q and %q are the same molecule (circular=%v ds=%v) but hash to %s and %s", s, prev[0], fp[0], fp[1], h, prev[1]))
						return false
					} else if !seen {
						byCanon[canon] = [2]string{s, h}
					}
					return true
				})
				if !ok {
					return
				}
				if len(byHash) != len(byCanon) {
					m.Fail(Case{Type: "DNA", Circ: fp[0], DS: fp[1]}, vk.Harnessf("partition sizes differ without a witnessed pair: %d hashes, %d orbits", len(byHash), len(byCanon)))
					return
				}
				vk.Count(fmt.Sprintf("orbits n=%d %s", n, tag("DNA", fp[0], fp[1])[1:]), int64(len(byCanon)))
			}
		}
	})
}

// reject: unknown molecule types, every single letter outside the type's alphabet at every
// position of short valid strings, double-stranded proteins.
func TestSub_reject(t *testing.T) {
	space := "11 unknown type strings x 9 sequences (the empty one, one letter, lower case, long, letters of no alphabet among them) x 4 flag pairs; every byte 0x00..0x7f that is not white space and 5 non-ASCII runes outside the alphabet inserted at every position of 3 short valid strings and of 2 strings holding the whole alphabet per type x 4 flag pairs; 10 kinds of white space at every position of the non-empty ones of those strings (rejected, or skipped so that the hash is that of the string without it); double-stranded proteins over all protein strings of length 0..2"
	vk.RunEnum(t, subReject, space, true, func(yield func(Case) bool) {
		for _, typ := range []string{"", "XNA", "TNA", "LIPID", "GLYCAN", "42", "?", "unknown", "DNA+PROTEIN", "\x00", "nucleic acid or protein"} {
			// whatever the sequence: a usual one, the empty one, one letter, lower case, a long one, letters of no alphabet
			for _, seq := range []string{"ACGT", "", "A", "M", "acgu", "MKV*", strings.Repeat("ACGT", 300), "0", "??"} {
				for _, fp := range flagPairs {
					if !yield(Case{Seq: vk.SeqSpec{Lit: seq}, Type: typ, Circ: fp[0], DS: fp[1], Reject: true}) {
						return
					}
				}
			}
		}
		intruders := []string{}
		for b := 0; b < 0x80; b++ {
			if !unicode.IsSpace(rune(b)) { // white space is not a letter: a reader that skips it is within the property
				intruders = append(intruders, string(rune(b)))
			}
		}
		intruders = append(intruders, "é", "Ω", "ß", "\xff", "Ж")
		for _, typ := range []string{"DNA", "RNA", "PROTEIN"} {
			alphabet, bases := nucleicAlphabet, []string{"", "A", "ACGT"}
			if typ == "PROTEIN" {
				alphabet, bases = proteinAlphabet, []string{"", "M", "MKV*"}
			}
			// ... and of two hosts that hold every letter of the alphabet (how many distinct letters precede or follow
			// the intruder is no reason to let it pass): the alphabet itself, and its lower-case mirror image twice
			mirrored := strings.ToLower(ref.Reverse(alphabet))
			bases = append(bases, alphabet, mirrored+mirrored)
			for _, in := range intruders {
				if strings.Contains(alphabet, strings.ToUpper(in)) {
					continue
				}
				for _, base := range bases {
					for pos := 0; pos <= len(base); pos++ {
						for _, fp := range flagPairs {
							if typ == "PROTEIN" && fp[1] {
								continue
							}
							if !yield(Case{Seq: vk.SeqSpec{Lit: base[:pos] + in + base[pos:]}, Type: typ, Circ: fp[0], DS: fp[1], Reject: true}) {
								return
							}
						}
					}
				}
			}
			// white space is no letter of any alphabet: it is rejected - or skipped, so that the hash is that of the
			// letters around it. What it cannot be is hashed as a letter.
			for _, in := range []string{" ", "\t", "\n", "\v", "\f", "\r", "\r\n", "\u0085", "\u00a0", "\u2028"} {
				for _, base := range bases {
					for pos := 0; pos <= len(base) && base != ""; pos++ {
						for _, fp := range flagPairs {
							if typ == "PROTEIN" && fp[1] {
								continue
							}
							if !yield(Case{Seq: vk.SeqSpec{Lit: base[:pos] + in + base[pos:]}, Type: typ, Circ: fp[0], DS: fp[1], Reject: true, FoldAs: base}) {
								return
							}
						}
					}
				}
			}
		}
		for _, circ := range []bool{false, true} {
			if !vk.EachString(proteinAlphabet, 0, 2, func(s string) bool {
				return yield(Case{Seq: vk.SeqSpec{Lit: s}, Type: "PROTEIN", Circ: circ, DS: true, Reject: true})
			}) {
				return
			}
		}
	})
}

// ---------------------------------------------------------------------------------------
// lengths: "two accepted inputs receive the same seqhash only if they denote the same molecule". Whatever the other
// strand of a letter without a complement (Z, U as DNA) may be, molecules of different length are different molecules:
// an accepted input and the same input with one letter removed, or one letter added, never share a seqhash. This is
// the part of the injectivity clause that can be judged for every accepted letter under every flag combination.

type LenCase struct {
	S    string `json:"s"`
	Type string `json:"type"`
	Circ bool   `json:"circular"`
	DS   bool   `json:"double_stranded"`
}

func checkLengths(c LenCase) error {
	h, err := seqhash.Hash(c.S, c.Type, c.Circ, c.DS)
	if err != nil {
		return nil // not an accepted input
	}
	relatives := []string{c.S + c.S[:1], c.S + "A"}
	for i := 0; i < len(c.S) && len(c.S) > 1; i++ {
		relatives = append(relatives, c.S[:i]+c.S[i+1:])
	}
	for _, r := range relatives {
		hr, err := seqhash.Hash(r, c.Type, c.Circ, c.DS)
		if err == nil && hr == h {
			return vk.Errf("Hash(%q) = Hash(%q) = %s (%s circular=%v doubleStranded=%v): molecules of %d and of %d letters share a seqhash", c.S, r, h, c.Type, c.Circ, c.DS, len(c.S), len(r))
		}
	}
	return nil
}

var subLengths = vk.Register(&vk.Sub[LenCase]{Name: "lengths", Check: checkLengths, NonTrivial: func(c LenCase) bool { return len(c.S) >= 2 }})

func TestSub_lengths(t *testing.T) {
	vk.RunEnum(t, subLengths, "every string of 1..4 letters over ACGTUZN and of 1..3 letters over aAzZuUtT as DNA and as RNA, and every string of 1..3 letters over ACDEZ*UO as PROTEIN, x the flag pairs the type allows: against the same string with one letter removed (each position) or added", true, func(yield func(LenCase) bool) {
		for _, typ := range []string{"DNA", "RNA", "PROTEIN"} {
			for _, fp := range flagPairs {
				if typ == "PROTEIN" && fp[1] {
					continue
				}
				each := func(s string) bool { return yield(LenCase{S: s, Type: typ, Circ: fp[0], DS: fp[1]}) }
				if typ == "PROTEIN" {
					if !vk.EachString("ACDEZ*UO", 1, 3, each) {
						return
					}
					continue
				}
				if !vk.EachString("ACGTUZN", 1, 4, each) || !vk.EachString("aAzZuUtT", 1, 3, each) {
					return
				}
			}
		}
	})
}

var subUnicode = vk.Register(&vk.Sub[Case]{Name: "unicode", Check: check, NonTrivial: nonTrivial, Sample: sample})

// unicode: every Unicode code point that is not an ASCII letter of the type's alphabet, alone and inside a valid
// sequence, for the three molecule types: rejected - or, for the few code points that case folding relates to an
// alphabet letter, read as that letter.
func TestSub_unicode(t *testing.T) {
	vk.RunEnum(t, subUnicode, "every code point U+0080..U+10FFFF (surrogates excepted) alone, and the Basic Multilingual Plane inside a valid sequence, x 3 molecule types", true, func(yield func(Case) bool) {
		for _, typ := range []string{"DNA", "RNA", "PROTEIN"} {
			alphabet, host := nucleicAlphabet, "ACGT"
			if typ == "PROTEIN" {
				alphabet, host = proteinAlphabet, "MKV*"
			}
			for r := rune(0x80); r <= unicode.MaxRune; r++ {
				if (r >= 0xd800 && r <= 0xdfff) || unicode.IsSpace(r) {
					continue
				}
				// the case relatives of r: its simple-folding orbit and its upper, lower and title forms (dotless i has
				// an upper-case form but no simple folding)
				fold := ""
				relatives := []rune{unicode.ToUpper(r), unicode.ToLower(r), unicode.ToTitle(r)}
				for f := unicode.SimpleFold(r); f != r; f = unicode.SimpleFold(f) {
					relatives = append(relatives, f)
				}
				for _, f := range relatives {
					if f < 0x80 && strings.ContainsRune(alphabet, unicode.ToUpper(f)) {
						fold = string(unicode.ToUpper(f))
					}
				}
				if !yield(Case{Seq: vk.SeqSpec{Lit: string(r)}, Type: typ, Reject: true, FoldAs: fold}) {
					return
				}
				if r <= 0xffff {
					foldIn := ""
					if fold != "" {
						foldIn = host[:2] + fold + host[2:]
					}
					if !yield(Case{Seq: vk.SeqSpec{Lit: host[:2] + string(r) + host[2:]}, Type: typ, Circ: r%2 == 0, Reject: true, FoldAs: foldIn}) {
						return
					}
				}
			}
		}
	})
}

func gen(t *rapid.T) Case {
	typ := rapid.SampledFrom([]string{"DNA", "DNA", "RNA", "PROTEIN"}).Draw(t, "type")
	c := Case{Type: typ, Circ: rapid.Bool().Draw(t, "circular")}
	alpha := ""
	switch typ {
	case "PROTEIN":
		alpha = proteinAlphabet
	default:
		c.DS = rapid.Bool().Draw(t, "double_stranded")
		alpha = rapid.SampledFrom([]string{"ACGT", "ACGT", ref.IUPACCodes, "AT", "CG"}).Draw(t, "alphabet")
		if !c.DS && rapid.IntRange(0, 5).Draw(t, "with_UZ") == 0 {
			alpha = "ACGTUZ"
		}
	}
	c.Seq = vk.DrawSeq(t, "seq", alpha, 0, 100000)
	s := c.Seq.String()
	if typ == "RNA" && rapid.Bool().Draw(t, "spell_U") {
		s = strings.ReplaceAll(s, "T", "U")
		c.Seq = vk.SeqSpec{Lit: s}
	}
	if len(s) <= 48 && len(s) > 0 {
		switch rapid.IntRange(0, 4).Draw(t, "shape") {
		case 0:
			s = strings.Repeat(s, rapid.IntRange(2, 5).Draw(t, "reps"))
		case 1:
			if typ != "PROTEIN" && !strings.ContainsAny(s, "UZ") {
				s = s + ref.RevComp(s)
			}
		}
		c.Seq = vk.SeqSpec{Lit: s}
	}
	// partner
	if n := len(s); n > 0 && n <= 5000 {
		o := s
		k := rapid.IntRange(0, n-1).Draw(t, "partner_offset")
		switch rapid.SampledFrom([]string{"rotate", "rc", "rc-rotate", "mutate", "swap", "same", "lowercase"}).Draw(t, "partner") {
		case "rotate":
			o = s[k:] + s[:k]
		case "rc":
			if typ != "PROTEIN" && !strings.ContainsAny(s, "UZ") {
				o = ref.RevComp(s)
			}
		case "rc-rotate":
			if typ != "PROTEIN" && !strings.ContainsAny(s, "UZ") {
				o = ref.RevComp(s)
				o = o[k:] + o[:k]
			}
		case "mutate":
			b := []byte(s)
			b[k] = alpha[rapid.IntRange(0, len(alpha)-1).Draw(t, "mut_letter")]
			o = string(b)
		case "swap":
			j := rapid.IntRange(0, n-1).Draw(t, "swap_with")
			b := []byte(s)
			b[k], b[j] = b[j], b[k]
			o = string(b)
		case "lowercase":
			o = strings.ToLower(s)
		}
		c.Other = &vk.SeqSpec{Lit: o}
	}
	return c
}

func TestSub_random(t *testing.T) { vk.RunRapid(t, subRandom) }

var subCollisions = vk.Register(&vk.Sub[Case]{Name: "collisions", Check: check, NonTrivial: nonTrivial, Sample: sample})

// TestSub_collisions: the two sequences of every checksum-colliding pair (vk.CollidingPairs) hashed one after the
// other under every flag pair: each gets its own v1 value, and the two values differ.
func TestSub_collisions(t *testing.T) {
	vk.RunEnum(t, subCollisions, "every checksum-colliding pair of 30-mers x both orders x 4 flag pairs x {DNA, RNA}", true, func(yield func(Case) bool) {
		for _, pr := range vk.CollidingPairs() {
			for _, fp := range flagPairs {
				for _, typ := range []string{"DNA", "RNA"} {
					for _, o := range [][2]string{{pr.A, pr.B}, {pr.B, pr.A}} {
						if !yield(Case{Seq: vk.SeqSpec{Lit: o[0]}, Other: &vk.SeqSpec{Lit: o[1]}, Type: typ, Circ: fp[0], DS: fp[1]}) {
							return
						}
					}
				}
			}
		}
	})
}

func TestReplay(t *testing.T) { vk.Replay(t) }
