// C01 — GenBank parsing returns exactly what a well-formed record states.
package c01

import (
	"fmt"
	"os"
	"path/filepath"
	"strings"
	"testing"

	"github.com/TimothyStiles/poly"
	"github.com/TimothyStiles/poly/io/genbank"
	"pgregory.net/rapid"
	"verifharness/internal/gbk"
	"verifharness/internal/insdc"
	"verifharness/internal/vk"
)

type Case struct {
	Records      []gbk.Record `json:"records"`
	FinalNewline bool         `json:"final_newline"`
	FlatHeader   bool         `json:"flat_header"`
}

func fileText(c Case) (whole string, each []string) {
	var b strings.Builder
	bases := 0
	for _, r := range c.Records {
		bases += len(r.Seq.String())
	}
	if c.FlatHeader {
		b.WriteString(gbk.FlatHeader("GBSYN1.SEQ", len(c.Records), bases))
	}
	for _, r := range c.Records {
		t := r.Write()
		each = append(each, t)
		b.WriteString(t)
	}
	whole = b.String()
	if !c.FinalNewline {
		whole = strings.TrimSuffix(whole, "\n")
	}
	return
}

func parse(what string, f func() []poly.Sequence) (out []poly.Sequence, err error) {
	defer func() {
		if r := recover(); r != nil {
			err = vk.Errf("%s panics: %v", what, r)
		}
	}()
	return f(), nil
}

func check(c Case) error {
	whole, each := fileText(c)
	// every record alone
	alone := make([]poly.Sequence, len(c.Records))
	for i, r := range c.Records {
		var guardErr error
		got, err := parse(fmt.Sprintf("Parse(record %d)", i), func() []poly.Sequence {
			buf, intact := vk.Guarded([]byte(each[i])) // the front part of a larger buffer of the caller's, overwritten once the parser has returned
			defer vk.Scribble(buf)
			res := []poly.Sequence{genbank.Parse(buf)}
			guardErr = intact()
			return res
		})
		if err != nil {
			return fmt.Errorf("%v\n--- record text ---\n%s", err, clip(each[i]))
		}
		if guardErr != nil {
			return fmt.Errorf("Parse(record %d): %v", i, guardErr)
		}
		if err := gbk.Compare(fmt.Sprintf("Parse(record %d)", i), got[0], r.Expected()); err != nil {
			return fmt.Errorf("%v\n--- record text ---\n%s", err, clip(each[i]))
		}
		alone[i] = got[0]
	}
	// the whole file
	var multi []poly.Sequence
	var err, wholeGuardErr error
	name := "ParseMulti"
	if c.FlatHeader {
		name = "ParseFlat"
		multi, err = parse(name, func() []poly.Sequence {
			buf, intact := vk.Guarded([]byte(whole))
			defer vk.Scribble(buf)
			res := genbank.ParseFlat(buf)
			wholeGuardErr = intact()
			return res
		})
	} else {
		multi, err = parse(name, func() []poly.Sequence {
			buf, intact := vk.Guarded([]byte(whole))
			defer vk.Scribble(buf)
			res := genbank.ParseMulti(buf)
			wholeGuardErr = intact()
			return res
		})
	}
	if err != nil {
		return err
	}
	if wholeGuardErr != nil {
		return fmt.Errorf("%s: %v", name, wholeGuardErr)
	}
	if len(multi) != len(c.Records) {
		return vk.Errf("%s returned %d results for a file of %d records (final newline: %v)", name, len(multi), len(c.Records), c.FinalNewline)
	}
	for i := range multi {
		if err := gbk.Compare(fmt.Sprintf("%s result %d", name, i), multi[i], c.Records[i].Expected()); err != nil {
			return err
		}
		if err := gbk.SameParsed(fmt.Sprintf("%s result %d vs Parse(record %d alone)", name, i, i), multi[i], alone[i]); err != nil {
			return err
		}
	}
	// Read* wrappers on the same bytes
	dir := vk.WorkDir()
	p := filepath.Join(dir, "x.gb")
	defer os.Remove(p)
	if err := os.WriteFile(p, []byte(whole), 0o644); err != nil {
		return vk.Harnessf("write %s: %v", p, err)
	}
	var viaFile []poly.Sequence
	if c.FlatHeader {
		viaFile, err = parse("ReadFlat", func() []poly.Sequence { return genbank.ReadFlat(p) })
	} else {
		viaFile, err = parse("ReadMulti", func() []poly.Sequence { return genbank.ReadMulti(p) })
	}
	if err != nil {
		return err
	}
	if len(viaFile) != len(multi) {
		return vk.Errf("Read wrapper returned %d results, %s %d", len(viaFile), name, len(multi))
	}
	for i := range viaFile {
		if err := gbk.SameParsed(fmt.Sprintf("Read wrapper result %d vs %s", i, name), viaFile[i], multi[i]); err != nil {
			return err
		}
	}
	if c.FlatHeader {
		pz := p + ".gz"
		defer os.Remove(pz)
		if err := os.WriteFile(pz, vk.Gzip([]byte(whole)), 0o644); err != nil {
			return vk.Harnessf("write %s: %v", pz, err)
		}
		viaGz, err := parse("ReadFlatGz", func() []poly.Sequence { return genbank.ReadFlatGz(pz) })
		if err != nil {
			return err
		}
		if len(viaGz) != len(multi) {
			return vk.Errf("ReadFlatGz returned %d results, ParseFlat %d", len(viaGz), len(multi))
		}
		for i := range viaGz {
			if err := gbk.SameParsed(fmt.Sprintf("ReadFlatGz result %d vs ParseFlat", i), viaGz[i], multi[i]); err != nil {
				return err
			}
		}
	}
	if len(c.Records) == 1 && !c.FlatHeader {
		one, err := parse("Read", func() []poly.Sequence { return []poly.Sequence{genbank.Read(p)} })
		if err != nil {
			return err
		}
		if err := gbk.SameParsed("Read vs Parse", one[0], alone[0]); err != nil {
			return err
		}
	}
	// the results belong to the caller: after every one of them has been written into (qualifier maps, location
	// trees, reference and feature lists), every record parses again to what it states
	for i := range alone {
		gbk.Vandalise(&alone[i])
	}
	for i := range multi {
		gbk.Vandalise(&multi[i])
	}
	for i, r := range c.Records {
		again, err := parse(fmt.Sprintf("Parse(record %d) after the earlier results were edited", i), func() []poly.Sequence {
			return []poly.Sequence{genbank.Parse([]byte(each[i]))}
		})
		if err != nil {
			return err
		}
		if err := gbk.Compare(fmt.Sprintf("Parse(record %d), a second time, after the caller had written into the earlier results", i), again[0], r.Expected()); err != nil {
			return fmt.Errorf("%v\n--- record text ---\n%s", err, clip(each[i]))
		}
	}
	return nil
}

func clip(s string) string {
	if len(s) > 3000 {
		return s[:2200] + fmt.Sprintf("\n…(%d bytes)…\n", len(s)) + s[len(s)-500:]
	}
	return s
}

func nonTrivial(c Case) bool {
	if len(c.Records) >= 2 {
		return true
	}
	for _, r := range c.Records {
		hasFQ := false
		for _, f := range r.Features {
			if len(f.Qualifiers) > 0 {
				hasFQ = true
			}
		}
		if hasFQ && strings.Count(r.Write(), "\n            ") > 0 {
			return true
		}
	}
	return false
}

func labels(c Case) []string {
	set := map[string]bool{}
	add := func(l string) { set[l] = true }
	if !c.FinalNewline {
		add("no final newline")
	}
	if c.FlatHeader {
		add("flat header")
	}
	if len(c.Records) >= 2 {
		add("records>=2")
	}
	for _, r := range c.Records {
		n := len(r.Seq.String())
		if n >= 10 && n <= 99 {
			add("2-digit length")
		}
		if n > 60 {
			add("|seq|>60")
		}
		if n > 10000 {
			add("|seq|>1e4")
		}
		if len(r.Name) == 2 {
			add("2-letter name")
		}
		if len(r.References) > 0 && len(r.Extra) > 0 {
			add("extra keyword after references")
		}
		for _, f := range r.Features {
			if len(f.Qualifiers) == 0 {
				add("qualifier-less feature")
			}
			if ll := gbk.LocationLines(f.Loc.Text()); len(ll) >= 2 {
				add("multi-line location")
				if len(ll) >= 3 {
					add("location on >=3 lines")
				}
			}
			for _, q := range f.Qualifiers {
				v := q.Value()
				if strings.Contains(v, "/") {
					add("'/' in value")
				}
				if strings.Contains(v, "=") {
					add("'=' in value")
				}
				if q.Kind == "text" && len(v) > 50 {
					add("wrapped qualifier")
				}
				if q.Kind == "flag" {
					add("valueless qualifier")
				}
			}
		}
		for _, line := range strings.Split(r.Write(), "\n") {
			t := strings.TrimSpace(line)
			if strings.HasPrefix(line, "                     /") == false && strings.HasPrefix(line, "                     ") && strings.HasPrefix(t, "/") {
				add("continuation line starting with '/'")
			}
			if strings.HasPrefix(line, "            ") {
				w := strings.SplitN(t, " ", 2)[0]
				switch w {
				case "TITLE", "AUTHORS", "JOURNAL", "PUBMED", "REMARK", "ORGANISM", "REFERENCE", "ORIGIN", "FEATURES", "SOURCE", "COMMENT", "LOCUS", "DEFINITION":
					add("keyword-like word at the start of a continuation line")
				}
			}
		}
	}
	var l []string
	for k := range set {
		l = append(l, k)
	}
	return l
}

func sample(c Case) any {
	whole, _ := fileText(c)
	return map[string]any{"file": clip(whole), "records": len(c.Records), "final_newline": c.FinalNewline, "flat_header": c.FlatHeader}
}

func gen(t *rapid.T) Case {
	c := Case{FinalNewline: rapid.Bool().Draw(t, "final_newline"), FlatHeader: rapid.IntRange(0, 3).Draw(t, "flat_header") == 0}
	n := rapid.SampledFrom([]int{1, 1, 1, 2, 3, 5}).Draw(t, "n_records")
	maxSeq := vk.Pick(100000, 100000) // records above the 64 KiB scanner/token sizes matter in the quick tier too
	for i := 0; i < n; i++ {
		c.Records = append(c.Records, gbk.Draw(t, fmt.Sprintf("r%d", i), maxSeq, 40))
	}
	return c
}

var sub = vk.Register(&vk.Sub[Case]{Name: "files", Gen: gen, Check: check, NonTrivial: nonTrivial, Labels: labels, Sample: sample})

func TestSub_files(t *testing.T) { vk.RunRapid(t, sub) }

func TestReplay(t *testing.T) { vk.Replay(t) }

// native coverage-guided fuzzing over the same generator and oracle (thorough tier)
var subFuzz = vk.Register(&vk.Sub[Case]{Name: "files_fuzz", Gen: gen, Check: check})

func FuzzSub_files_fuzz(f *testing.F) { vk.RunFuzz(f, subFuzz) }

// ---------------------------------------------------------------------------------------
// corpus: the repository's own GenBank files, read by poly and by the harness's independent
// reader (differential). Records the independent reader does not accept (CRLF files, duplicate
// qualifier keys, the flat-file header) are outside its domain and are skipped and counted.

type CorpusCase struct {
	File  string `json:"file"`
	Index int    `json:"record"`
}

func corpusRecords(file string) []string {
	b, err := os.ReadFile(vk.RepoPath(filepath.Join("data", file)))
	if err != nil {
		return nil
	}
	var out []string
	for _, r := range strings.SplitAfter(string(b), "\n//\n") {
		if strings.TrimSpace(r) != "" {
			out = append(out, r)
		}
	}
	return out
}

func checkCorpus(c CorpusCase) error {
	recs := corpusRecords(c.File)
	if c.Index >= len(recs) {
		return vk.Harnessf("%s has no record %d", c.File, c.Index)
	}
	text := recs[c.Index]
	ind, err := gbk.Read(text)
	if err != nil {
		vk.Count("record outside the independent reader's domain (skipped)", 1)
		return nil
	}
	for _, f := range ind.Features {
		if _, err := insdc.ParseStrict(f.Location); err != nil {
			// e.g. data/sample.gbk writes a 3' partial end as 687..3158>: not a well-formed record in the property's sense
			vk.Count("record with a location outside the INSDC grammar (skipped)", 1)
			return nil
		}
	}
	got, perr := parse("Parse("+c.File+")", func() []poly.Sequence { return []poly.Sequence{genbank.Parse([]byte(text))} })
	if perr != nil {
		return perr
	}
	want, _ := gbk.ExpectedOf(got[0])
	// the independent reader's result is the reference; poly's result is rendered the same way and compared
	if err := gbk.CompareExpected(fmt.Sprintf("%s record %d: independent reader vs genbank.Parse", c.File, c.Index), ind, want, nil); err != nil {
		return err
	}
	vk.Count("record read identically by poly and the independent reader", 1)
	return nil
}

var subCorpus = vk.Register(&vk.Sub[CorpusCase]{Name: "corpus", Check: checkCorpus})

func TestSub_corpus(t *testing.T) {
	files := []string{"puc19.gbk", "sample.gbk", "t4_intron.gb", "phix174.gb", "pichia_chr1_head.gb", "puc19_snapgene.gb", "long_comment.seq", "multiGbk_test.seq", "flatGbk_test.seq"}
	vk.RunEnum(t, subCorpus, "every record of the nine GenBank files under /repo/data", true, func(yield func(CorpusCase) bool) {
		for _, f := range files {
			for i := range corpusRecords(f) {
				if !yield(CorpusCase{File: f, Index: i}) {
					return
				}
			}
		}
	})
}
