// C15 — JSON is a lossless interchange form for annotated sequences.
package c15

import (
	"encoding/json"
	"fmt"
	"os"
	"path/filepath"
	"reflect"
	"sort"
	"strings"
	"testing"

	"github.com/TimothyStiles/poly"
	"github.com/TimothyStiles/poly/io/genbank"
	"github.com/TimothyStiles/poly/io/gff"
	"github.com/TimothyStiles/poly/io/polyjson"
	"pgregory.net/rapid"
	"verifharness/internal/gbk"
	"verifharness/internal/insdc"
	"verifharness/internal/vk"
)

// FeatureSpec mirrors poly.Feature without the parent pointer; the location is kept as an AST.
type FeatureSpec struct {
	Name, Source, Type, Score, Strand, Phase  string
	Attributes                                map[string]string
	AttributesNil                             bool
	GbkLocationString, Sequence, SequenceHash string
	Description, SequenceHashFunction         string
	Loc                                       insdc.Node
	// EmptySubs: the leaves of the location tree carry an empty, non-nil SubLocations slice
	EmptySubs bool
	// Wrap: the location tree is put under this many plain nodes (neither join nor complement, no range of
	// their own, one sub-location): a tree no file parser produces but a poly.Location value can hold; its
	// feature sequence is that of the inner tree.
	Wrap int
	// ZeroSpan (non-zero): the location is a leaf whose range is 0..0 - the zero value of both coordinates - while its
	// flags are not: bit 0 complement, bit 1 5' partial, bit 2 3' partial, bit 3 none of them
	ZeroSpan int
}

type Case struct {
	Kind     string        `json:"kind"` // value | genbank | gff
	Meta     poly.Meta     `json:"meta"`
	OtherNil bool          `json:"other_nil"`
	RefsNil  bool          `json:"references_nil"`
	Desc     string        `json:"description"`
	Hash     string        `json:"hash"`
	HashFn   string        `json:"hash_function"`
	Seq      vk.SeqSpec    `json:"seq"`
	Features []FeatureSpec `json:"features"`
	FeatNil  bool          `json:"features_nil"`
	Record   *gbk.Record   `json:"record,omitempty"` // genbank text clause
	GffText  string        `json:"gff_text,omitempty"`
}

func build(c Case) poly.Sequence {
	x := poly.Sequence{Meta: c.Meta, Description: c.Desc, SequenceHash: c.Hash, SequenceHashFunction: c.HashFn, Sequence: c.Seq.String()}
	if c.OtherNil {
		x.Meta.Other = nil
	} else if x.Meta.Other == nil {
		x.Meta.Other = map[string]string{}
	}
	if c.RefsNil {
		x.Meta.References = nil
	} else if x.Meta.References == nil {
		x.Meta.References = []poly.Reference{}
	}
	if !c.FeatNil {
		x.Features = []poly.Feature{}
	}
	for _, f := range c.Features {
		ft := poly.Feature{Name: f.Name, Source: f.Source, Type: f.Type, Score: f.Score, Strand: f.Strand, Phase: f.Phase, GbkLocationString: f.GbkLocationString,
			Sequence: f.Sequence, SequenceHash: f.SequenceHash, Description: f.Description, SequenceHashFunction: f.SequenceHashFunction, SequenceLocation: f.Loc.Structure()}
		if f.ZeroSpan != 0 {
			ft.SequenceLocation = poly.Location{Complement: f.ZeroSpan&1 != 0, FivePrimePartial: f.ZeroSpan&2 != 0, ThreePrimePartial: f.ZeroSpan&4 != 0}
		}
		if f.EmptySubs {
			ft.SequenceLocation = emptyLeaves(ft.SequenceLocation)
		}
		for i := 0; i < f.Wrap; i++ {
			ft.SequenceLocation = poly.Location{SubLocations: []poly.Location{ft.SequenceLocation}}
		}
		if !f.AttributesNil {
			ft.Attributes = map[string]string{}
			for k, v := range f.Attributes {
				ft.Attributes[k] = v
			}
		}
		x.AddFeature(&ft)
	}
	return x
}

// emptyLeaves gives every leaf of the tree an empty, non-nil list of sub-locations.
func emptyLeaves(l poly.Location) poly.Location {
	if len(l.SubLocations) == 0 {
		l.SubLocations = []poly.Location{}
		return l
	}
	subs := make([]poly.Location, len(l.SubLocations))
	for i, s := range l.SubLocations {
		subs[i] = emptyLeaves(s)
	}
	l.SubLocations = subs
	return l
}

// normalise drops the parent pointers. Absent (nil) and empty collections are kept apart - the
// JSON form distinguishes null from [] / {} and the property lists "empty and absent
// collections" - except for Sequence.Features, where polyjson.Parse itself turns an absent list
// into an empty one.
func normalise(x poly.Sequence) poly.Sequence {
	fs := make([]poly.Feature, len(x.Features))
	for i, f := range x.Features {
		f.ParentSequence = nil
		fs[i] = f
	}
	x.Features = fs
	if len(fs) == 0 {
		x.Features = nil
	}
	return x
}

func describeDiff(a, b poly.Sequence) string {
	ja, _ := json.Marshal(a)
	jb, _ := json.Marshal(b)
	i := 0
	for i < len(ja) && i < len(jb) && ja[i] == jb[i] {
		i++
	}
	lo := max(0, i-120)
	return fmt.Sprintf("first difference near byte %d of the JSON forms:\n  before: …%s\n  after:  …%s", i, string(ja[lo:min(len(ja), i+160)]), string(jb[lo:min(len(jb), i+160)]))
}

func sameValue(what string, x, y poly.Sequence) error {
	nx, ny := normalise(x), normalise(y)
	if !reflect.DeepEqual(nx, ny) {
		return vk.Errf("%s: the value read back differs from the original; %s", what, describeDiff(nx, ny))
	}
	if len(y.Features) != len(x.Features) {
		return vk.Errf("%s: %d features read back, %d written", what, len(y.Features), len(x.Features))
	}
	for i := range x.Features {
		before := x.Features[i].GetSequence()
		var after string
		var perr any
		func() {
			defer func() { perr = recover() }()
			after = y.Features[i].GetSequence()
		}()
		if perr != nil {
			return vk.Errf("%s: feature %d cannot report its sequence after the round trip (not re-linked to its parent?): %v", what, i, perr)
		}
		if after != before {
			return vk.Errf("%s: feature %d reports sequence %q after the round trip, %q before", what, i, after, before)
		}
		if p := y.Features[i].ParentSequence; p == nil || p.Sequence != x.Sequence {
			return vk.Errf("%s: feature %d is not linked to a parent holding the sequence", what, i)
		}
	}
	return nil
}

func throughJSON(x poly.Sequence) (poly.Sequence, error) {
	b, err := json.Marshal(x)
	if err != nil {
		// the value holds strings, integers, booleans, lists and string maps only: that it cannot be serialised is not the
		// harness's doing but the library's (a marshaller of its own), and "serialising any annotated sequence" failed
		return poly.Sequence{}, vk.Errf("json.Marshal of the annotated sequence fails: %v", err)
	}
	buf, intact := vk.Guarded(b) // the front part of a larger buffer of the caller's
	y := polyjson.Parse(buf)
	if err := intact(); err != nil {
		return y, fmt.Errorf("polyjson.Parse: %v", err)
	}
	vk.Scribble(buf) // the caller re-uses its buffer: what Parse returned must not change with it
	return y, nil
}

// viaFile: the parsed input written with polyjson.Write, read with polyjson.Read and written back in its own format
// gives the text that writing the parsed input directly gave (direct was built before the JSON file was written);
// and the parsed input still writes that text afterwards.
func viaFile(parsed poly.Sequence, build func(poly.Sequence) []byte, direct []byte, format string) error {
	p := filepath.Join(vk.WorkDir(), "t.json")
	defer os.Remove(p)
	polyjson.Write(parsed, p)
	if via := build(polyjson.Read(p)); string(via) != string(direct) {
		i := 0
		for i < len(via) && i < len(direct) && via[i] == direct[i] {
			i++
		}
		return vk.Errf("%s -> polyjson.Write -> polyjson.Read -> %s differs from writing the parsed input directly (first difference at byte %d):\n  direct: …%s\n  via the JSON file: …%s", format, format, i, string(direct[max(0, i-100):min(len(direct), i+150)]), string(via[max(0, i-100):min(len(via), i+150)]))
	}
	if again := build(parsed); string(again) != string(direct) {
		return vk.Errf("after polyjson.Write the parsed %s input no longer writes the text it wrote before (the writer changed its argument)", format)
	}
	return nil
}

func check(c Case) error {
	switch c.Kind {
	case "genbank":
		text := c.Record.Write()
		parsed := genbank.Parse([]byte(text))
		direct := genbank.Build(parsed)
		y, err := throughJSON(parsed)
		if err != nil {
			return err
		}
		if err := sameValue("JSON round trip of a parsed GenBank record", parsed, y); err != nil {
			return err
		}
		if err := viaFile(parsed, func(z poly.Sequence) []byte { return genbank.Build(z) }, direct, "GenBank"); err != nil {
			return err
		}
		if via := genbank.Build(y); string(via) != string(direct) {
			i := 0
			for i < len(via) && i < len(direct) && via[i] == direct[i] {
				i++
			}
			return vk.Errf("GenBank -> JSON -> GenBank differs from writing the parsed input directly (first difference at byte %d):\n  direct: …%s\n  via JSON: …%s", i, string(direct[max(0, i-100):min(len(direct), i+150)]), string(via[max(0, i-100):min(len(via), i+150)]))
		}
		return nil
	case "gff":
		parsed := gff.Parse([]byte(c.GffText))
		direct := gff.Build(parsed)
		y, err := throughJSON(parsed)
		if err != nil {
			return err
		}
		if err := sameValue("JSON round trip of a parsed GFF file", parsed, y); err != nil {
			return err
		}
		if err := viaFile(parsed, func(z poly.Sequence) []byte { return gff.Build(z) }, direct, "GFF"); err != nil {
			return err
		}
		if via := gff.Build(y); string(via) != string(direct) {
			return vk.Errf("GFF -> JSON -> GFF differs from writing the parsed input directly:\n--- direct ---\n%s\n--- via JSON ---\n%s", string(direct), string(via))
		}
		return nil
	}
	x := build(c)
	y, err := throughJSON(x)
	if err != nil {
		return err
	}
	if err := sameValue("polyjson.Parse(json.Marshal(x))", x, y); err != nil {
		return err
	}
	// the value read belongs to the caller: written into, the same document reads again to the value it holds
	gbk.Vandalise(&y)
	y2, err := throughJSON(x)
	if err != nil {
		return err
	}
	if err := sameValue("polyjson.Parse(json.Marshal(x)), a second time, after the caller had written into the first result", build(c), y2); err != nil {
		return err
	}
	if len(x.Sequence) <= 100000 { // kept by the caller while other documents are parsed (vk.Hold)
		vk.Hold("the value polyjson.Parse returned", func() error { return sameValue("the value parsed earlier", build(c), y2) })
	}
	p := filepath.Join(vk.WorkDir(), "x.json")
	defer os.Remove(p)
	vk.StaleFile(p, 4*len(x.Sequence)+20000)
	vk.AlternateTempDir(func() { polyjson.Write(x, p) })
	// Write leaves the value it was given as it was: compared with the same value built afresh from the case
	if err := sameValue("the value handed to polyjson.Write, afterwards, against the same value built afresh (the writer must not change its argument)", build(c), x); err != nil {
		return err
	}
	if err := sameValue("polyjson.Read(polyjson.Write(x))", build(c), polyjson.Read(p)); err != nil {
		return err
	}
	// the written file through the other reading entry point
	b, err := os.ReadFile(p)
	if err != nil {
		return vk.Harnessf("cannot read back %s: %v", p, err)
	}
	return sameValue("polyjson.Parse(bytes of the file polyjson.Write wrote)", x, polyjson.Parse(b))
}

func depth(n insdc.Node) int {
	d := 0
	for _, k := range n.Kids {
		d = max(d, depth(k)+1)
	}
	return d
}

func nonASCII(s string) bool {
	for _, r := range s {
		if r > 127 {
			return true
		}
	}
	return false
}

func nonTrivial(c Case) bool {
	if c.Kind != "value" {
		return true
	}
	if c.OtherNil || c.RefsNil || c.FeatNil || len(c.Features) == 0 {
		return true
	}
	for _, f := range c.Features {
		if depth(f.Loc) >= 1 || nonASCII(f.Description) || f.AttributesNil || len(f.Attributes) == 0 {
			return true
		}
	}
	return nonASCII(c.Meta.Definition) || nonASCII(c.Desc)
}

func labels(c Case) []string {
	set := map[string]bool{"kind:" + c.Kind: true}
	if c.Kind == "value" {
		if c.OtherNil {
			set["Other nil"] = true
		} else if len(c.Meta.Other) == 0 {
			set["Other empty"] = true
		}
		if c.FeatNil {
			set["Features nil"] = true
		}
		if n := len(c.Seq.String()); n >= 65536 {
			set["sequence of >= 65536 letters"] = true
		} else if n >= 4096 {
			set["sequence of 4096..65535 letters"] = true
		}
		if len(c.Meta.Definition) >= 4096 || len(c.Desc) >= 4096 || len(c.Meta.Other["COMMENT"]) >= 4096 {
			set["text field of >= 4096 bytes"] = true
		}
		if len(c.Features) > 256 {
			set["more than 256 features"] = true
		} else if len(c.Features) >= 30 {
			set["30..256 features"] = true
		}
		for _, f := range c.Features {
			if d := depth(f.Loc); d >= 1 {
				set[fmt.Sprintf("nested location depth %d", min(d, 4))] = true
			}
			if f.EmptySubs {
				set["empty non-nil sub-location lists"] = true
			}
			if f.Wrap > 0 {
				set["location under a plain single-child node"] = true
			}
			if f.AttributesNil {
				set["attributes nil"] = true
			} else if len(f.Attributes) == 0 {
				set["attributes empty"] = true
			}
			for _, m := range f.Loc.Markers() {
				if m.P5 || m.P3 {
					set["partial flag"] = true
				}
			}
		}
		if nonASCII(c.Meta.Definition) || nonASCII(c.Desc) {
			set["non-ASCII text"] = true
		}
		if len(c.Meta.References) > 0 {
			set["has references"] = true
		}
	}
	var l []string
	for k := range set {
		l = append(l, k)
	}
	sort.Strings(l)
	return l
}

func sample(c Case) any {
	switch c.Kind {
	case "genbank":
		t := c.Record.Write()
		if len(t) > 900 {
			t = t[:700] + fmt.Sprintf("…(%d bytes)", len(t))
		}
		return map[string]any{"kind": c.Kind, "genbank_input": t}
	case "gff":
		return map[string]any{"kind": c.Kind, "gff_input": c.GffText}
	}
	b, _ := json.Marshal(normalise(build(c)))
	s := string(b)
	if len(s) > 1200 {
		s = s[:1000] + fmt.Sprintf("…(%d bytes)", len(s))
	}
	return map[string]any{"kind": c.Kind, "value_as_json": s}
}

// text: valid UTF-8 including characters JSON escapes and non-ASCII
var textGen = rapid.OneOf(
	rapid.StringMatching(`[ -~]{0,30}`),
	rapid.StringOfN(rapid.RuneFrom([]rune("<>&\"'\\/\t\n\r   abcXYZ012")), 0, 12, -1),
	rapid.StringOfN(rapid.RuneFrom([]rune("αβγδ→日本語éüñ🧬 xyz")), 0, 12, -1),
	rapid.Just(""),
	rapid.SampledFrom(vk.Placeholders), // "unknown", ".", "NaN", "-Inf", "null", "0" ...: text like any other
	// code points that tools like to treat specially: byte order mark / zero-width no-break space, zero-width space and
	// joiners, soft hyphen, no-break space, next line, directional marks, word joiner, replacement character,
	// non-characters, private use, the last code point, NUL and DEL
	rapid.StringOfN(rapid.RuneFrom([]rune("\ufeff\u200b\u200c\u200d\u00ad\u00a0\u0085\u200e\u202e\u2060\ufffd\ufffe\uffff\ue000\U0010ffff\x00\x7f ab")), 1, 8, -1),
	// any Unicode scalar value
	rapid.StringOfN(rapid.OneOf(rapid.Int32Range(0, 0xd7ff), rapid.Int32Range(0xe000, 0x10ffff)), 0, 6, -1),
	// text that looks like an escape sequence of some serialisation but is plain text
	rapid.SampledFrom([]string{"\\u003c", "a\\u0026b", "\\u003e1..5", "\\n", "\\\"", "\\\\", "&lt;", "&amp;amp;", "%3C%3E", "\\x00", "\\u2028", "{\"a\":1}", "null", "[]", "\\/", "$1", "%s %d"}),
)

func drawMap(t *rapid.T, name string) map[string]string {
	n := rapid.IntRange(0, 5).Draw(t, name+"_n")
	m := map[string]string{}
	for i := 0; i < n; i++ {
		m[textGen.Draw(t, name+"_key")] = textGen.Draw(t, name+"_value")
	}
	return m
}

func genValue(t *rapid.T) Case {
	c := Case{Kind: "value"}
	tx := func(n string) string { return textGen.Draw(t, n) }
	c.Meta = poly.Meta{Name: tx("name"), GffVersion: tx("gff_version"), RegionStart: rapid.IntRange(-5, 1<<40).Draw(t, "region_start"), RegionEnd: rapid.Int().Draw(t, "region_end"), Size: rapid.IntRange(0, 1<<31).Draw(t, "size"),
		Type: tx("type"), Date: tx("date"), Definition: tx("definition"), Accession: tx("accession"), Version: tx("version"), Keywords: tx("keywords"), Organism: tx("organism"), Source: tx("source"), Origin: tx("origin")}
	c.Meta.Locus = poly.Locus{Name: tx("locus_name"), SequenceLength: tx("locus_len"), MoleculeType: tx("molecule"), GenbankDivision: tx("division"), ModificationDate: tx("moddate"), SequenceCoding: tx("coding"), Circular: rapid.Bool().Draw(t, "circular"), Linear: rapid.Bool().Draw(t, "linear")}
	nref := rapid.IntRange(0, 3).Draw(t, "n_references")
	for i := 0; i < nref; i++ {
		c.Meta.References = append(c.Meta.References, poly.Reference{Index: tx("ref_index"), Authors: tx("ref_authors"), Title: tx("ref_title"), Journal: tx("ref_journal"), PubMed: tx("ref_pubmed"), Remark: tx("ref_remark"), Range: tx("ref_range")})
	}
	c.RefsNil = nref == 0 && rapid.Bool().Draw(t, "references_nil")
	c.Meta.Other = drawMap(t, "other")
	c.OtherNil = len(c.Meta.Other) == 0 && rapid.Bool().Draw(t, "other_nil")
	c.Desc, c.Hash, c.HashFn = tx("description"), tx("hash"), tx("hash_function")
	c.Seq = vk.DrawSeq(t, "seq", rapid.SampledFrom([]string{"ACGT", "acgtn", "ACGTRYKMSWBDHVN", "ACGU", "ACDEFGHIKLMNPQRSTVWYX*", "ACGT-.", "acgtn-*"}).Draw(t, "alphabet"), 0, 300000)
	// one value in ten carries a long text field (the JSON text is laid out on lines; long ones matter)
	if rapid.IntRange(0, 9).Draw(t, "long_text") == 0 {
		long := "é" + vk.Fill(rapid.Uint64().Draw(t, "long_text_fill"), vk.DrawSize(t, "long_text", 1000, 200000), "abc xyz,.\\\"/")
		switch rapid.IntRange(0, 2).Draw(t, "long_text_field") {
		case 0:
			c.Meta.Definition = long
		case 1:
			c.Desc = long
		default:
			if c.Meta.Other == nil {
				c.Meta.Other = map[string]string{}
			}
			c.Meta.Other["COMMENT"] = long
			c.OtherNil = false
		}
	}
	n := len(c.Seq.String())
	nf := rapid.IntRange(0, 6).Draw(t, "n_features")
	// one value in sixteen is an annotated genome rather than a plasmid map: some hundred features (each with its own
	// name, type and qualifier keys: several hundred distinct words in one document), locations kept shallow
	many := rapid.IntRange(0, 15).Draw(t, "many_features") == 0
	if many {
		nf = rapid.SampledFrom([]int{30, 64, 100, 127, 128, 200, 255, 256, 257, 300, 400}).Draw(t, "n_features_many")
	}
	if n == 0 {
		nf = 0
	}
	c.FeatNil = nf == 0 && rapid.Bool().Draw(t, "features_nil")
	for i := 0; i < nf; i++ {
		fn := fmt.Sprintf("f%d", i)
		f := FeatureSpec{Name: tx(fn + "_name"), Source: tx(fn + "_source"), Type: tx(fn + "_type"), Score: tx(fn + "_score"), Strand: tx(fn + "_strand"), Phase: tx(fn + "_phase"),
			GbkLocationString: tx(fn + "_loctext"), Sequence: tx(fn + "_sequence"), SequenceHash: tx(fn + "_hash"), Description: tx(fn + "_description"), SequenceHashFunction: tx(fn + "_hashfn")}
		f.Attributes = drawMap(t, fn+"_attr")
		f.AttributesNil = len(f.Attributes) == 0 && rapid.Bool().Draw(t, fn+"_attr_nil")
		if many {
			f.Name, f.Type = fmt.Sprintf("gene_%04d %s", i, f.Name), fmt.Sprintf("%s_%d", f.Type, i%97)
			f.Loc = insdc.Draw(t, fn+"_loc", n, i%2)
			c.Features = append(c.Features, f)
			continue
		}
		f.Loc = insdc.Draw(t, fn+"_loc", n, rapid.IntRange(0, 4).Draw(t, fn+"_loc_depth"))
		f.EmptySubs = rapid.IntRange(0, 3).Draw(t, fn+"_empty_sublocations") == 0
		if rapid.IntRange(0, 7).Draw(t, fn+"_zero_span") == 0 {
			f.ZeroSpan = rapid.IntRange(1, 8).Draw(t, fn+"_zero_span_flags")
		}
		if rapid.IntRange(0, 5).Draw(t, fn+"_wrapped") == 0 {
			f.Wrap = rapid.IntRange(1, 2).Draw(t, fn+"_wrap_levels")
		}
		c.Features = append(c.Features, f)
	}
	return c
}

func genGenBank(t *rapid.T) Case {
	r := gbk.Draw(t, "r", 100000, 20)
	return Case{Kind: "genbank", Record: &r}
}

func genGff(t *rapid.T) Case {
	name := rapid.StringMatching(`[a-zA-Z0-9.:^*$@!+_?|-]{1,12}`).Draw(t, "region")
	n := rapid.IntRange(1, 400).Draw(t, "len")
	seq := vk.Fill(rapid.Uint64().Draw(t, "fill"), n, "ACGT")
	start := rapid.SampledFrom([]int{1, 1, 101}).Draw(t, "region_start")
	var b strings.Builder
	fmt.Fprintf(&b, "##gff-version 3\n##sequence-region %s %d %d\n", name, start, start+n-1)
	nf := rapid.IntRange(0, 8).Draw(t, "n_features")
	field := rapid.StringMatching(`[A-Za-z0-9_.:| -]{1,10}`)
	for i := 0; i < nf; i++ {
		a := rapid.IntRange(1, n).Draw(t, "start")
		e := rapid.IntRange(a, n).Draw(t, "end")
		na := rapid.IntRange(1, 4).Draw(t, "n_attrs")
		var attrs []string
		for j := 0; j < na; j++ {
			attrs = append(attrs, fmt.Sprintf("k%d%s=%s", j, rapid.StringMatching(`[A-Za-z]{0,4}`).Draw(t, "attr_key"), field.Draw(t, "attr_value")))
		}
		fmt.Fprintf(&b, "%s\t%s\t%s\t%d\t%d\t%s\t%s\t%s\t%s\n", name, field.Draw(t, "source"), field.Draw(t, "type"), a, e,
			rapid.SampledFrom([]string{".", "0.5", "42"}).Draw(t, "score"), rapid.SampledFrom([]string{"+", "-", "."}).Draw(t, "strand"), rapid.SampledFrom([]string{".", "0", "1", "2"}).Draw(t, "phase"), strings.Join(attrs, ";"))
	}
	w := rapid.SampledFrom([]int{60, 70, 80, 13}).Draw(t, "wrap")
	b.WriteString("###\n##FASTA\n>" + name + "\n")
	for i := 0; i < n; i += w {
		b.WriteString(seq[i:min(n, i+w)] + "\n")
	}
	return Case{Kind: "gff", GffText: b.String()}
}

var subValue = vk.Register(&vk.Sub[Case]{Name: "value", Gen: genValue, Check: check, NonTrivial: nonTrivial, Labels: labels, Sample: sample})
var subGenBank = vk.Register(&vk.Sub[Case]{Name: "genbank_text", Gen: genGenBank, Check: check, NonTrivial: nonTrivial, Labels: labels, Sample: sample})
var subGff = vk.Register(&vk.Sub[Case]{Name: "gff_text", Gen: genGff, Check: check, NonTrivial: nonTrivial, Labels: labels, Sample: sample})

func TestSub_value(t *testing.T)        { vk.RunRapid(t, subValue) }
func TestSub_genbank_text(t *testing.T) { vk.RunRapid(t, subGenBank) }
func TestSub_gff_text(t *testing.T)     { vk.RunRapid(t, subGff) }

func TestReplay(t *testing.T) { vk.Replay(t) }

// native coverage-guided fuzzing over the same generator and oracle (thorough tier)
var subFuzz = vk.Register(&vk.Sub[Case]{Name: "value_fuzz", Gen: genValue, Check: check})

func FuzzSub_value_fuzz(f *testing.F) { vk.RunFuzz(f, subFuzz) }
