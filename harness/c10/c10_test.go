// C10 — Type IIS digestion cuts at enzyme geometry, independent of plasmid origin.
package c10

import (
	"fmt"
	"regexp"
	"strings"
	"testing"

	"github.com/TimothyStiles/poly/clone"
	"pgregory.net/rapid"
	"verifharness/internal/ref"
	"verifharness/internal/refclone"
	"verifharness/internal/vk"
)

const knownOrigin = "K-C10-1"

type Case struct {
	Enzyme       refclone.Enzyme `json:"enzyme"`
	ByName       bool            `json:"by_name"` // built-in enzyme through CutWithEnzymeByName
	Seq          string          `json:"seq"`     // upper case; the input is Seq with CaseMask applied
	Circular     bool            `json:"circular"`
	AllRotations bool            `json:"all_rotations,omitempty"`
	Rotations    []int           `json:"rotations,omitempty"`
	CaseMask     uint64          `json:"case_mask"`
	// NoExclusion: judge every rotation even while K-C10-1 is active (used by its witness)
	NoExclusion bool `json:"no_exclusion,omitempty"`
}

func applyCase(s string, mask uint64) string {
	b := []byte(s)
	for i := range b {
		if (mask>>(uint(i+i/64)%64))&1 == 1 && b[i] >= 'A' && b[i] <= 'Z' {
			b[i] = b[i] - 'A' + 'a'
		}
	}
	return string(b)
}

// polyEnzyme assembles the enzyme value by hand, as a user with an enzyme table of his own does. The regular
// expressions are what finds the site (in the upper-cased part); the RecognitionSite field is spelt in lower case for
// every second geometry - the field's letter case says nothing about where the enzyme cuts.
func polyEnzyme(e refclone.Enzyme) clone.Enzyme {
	site := e.Site
	if (e.Skip+e.OverhangLen+len(e.Site))%2 == 1 {
		site = strings.ToLower(site)
	}
	return clone.Enzyme{Name: e.Name, RegexpFor: regexp.MustCompile(e.Site), RegexpRev: regexp.MustCompile(ref.RevComp(e.Site)),
		Skip: e.Skip, OverhangLen: e.OverhangLen, RecognitionSite: site}
}

func cut(c Case, seq string) ([]refclone.Fragment, error) {
	part := clone.Part{Sequence: seq, Circular: c.Circular}
	var frags []clone.Fragment
	if c.ByName {
		var err error
		frags, err = clone.CutWithEnzymeByName(part, true, c.Enzyme.Name)
		if err != nil {
			return nil, vk.Errf("CutWithEnzymeByName(%s): %v", c.Enzyme.Name, err)
		}
	} else {
		frags = clone.CutWithEnzyme(part, true, polyEnzyme(c.Enzyme))
	}
	out := make([]refclone.Fragment, len(frags))
	for i, f := range frags {
		out[i] = refclone.Fragment{Forward: f.ForwardOverhang, Interior: f.Sequence, Reverse: f.ReverseOverhang}
		frags[i] = clone.Fragment{Sequence: "overwritten", ForwardOverhang: "by the", ReverseOverhang: "caller"} // the list belongs to the caller
	}
	return out, nil
}

func rotations(c Case) []int {
	n := len(c.Seq)
	if !c.Circular {
		return []int{0}
	}
	if c.AllRotations {
		r := make([]int, n)
		for i := range r {
			r[i] = i
		}
		return r
	}
	r := []int{0}
	for _, x := range c.Rotations {
		r = append(r, ((x%n)+n)%n)
	}
	// every rotation that puts the stored origin inside, or within two bases of, a recognition-site occurrence or
	// the start of its cut: the rotations at which a search over copies of the sequence meets its boundary cases
	_, L := refclone.Digest(c.Seq, true, c.Enzyme)
	seen := map[int]bool{}
	for _, x := range r {
		seen[x] = true
	}
	for _, site := range L.Sites {
		for _, at := range []int{site.SiteStart, site.Start} {
			for d := -2; d <= len(c.Enzyme.Site)+2; d++ {
				if x := ((at+d)%n + n) % n; !seen[x] {
					seen[x] = true
					r = append(r, x)
				}
			}
		}
	}
	return r
}

func check(c Case) error {
	want, L := refclone.Digest(c.Seq, c.Circular, c.Enzyme)
	if !L.Valid {
		vk.Count("layout outside the domain (discarded): "+L.Why, 1)
		return nil
	}
	exclude := !c.NoExclusion && vk.KnownActive(knownOrigin)
	// the same string under the other topology first, result discarded
	flipped := c
	flipped.Circular = !c.Circular
	func() {
		defer func() { _ = recover() }() // that layout need not be in the domain: whatever happens to it is not judged
		_, _ = cut(flipped, applyCase(c.Seq, c.CaseMask))
	}()
	// and the same string with another enzyme first (a built-in one, or the same site with another geometry)
	func() {
		defer func() { _ = recover() }()
		o := c
		o.ByName = false
		if c.Enzyme.Name != "custom" {
			o.Enzyme = refclone.BuiltIn[map[string]string{"BsaI": "BbsI", "BbsI": "BtgZI", "BtgZI": "BsaI"}[c.Enzyme.Name]]
			_, _ = cut(o, applyCase(c.Seq, c.CaseMask))
		}
		// the same site with a shorter and with a longer reach
		for _, g := range [][2]int{{0, 1 + c.Enzyme.OverhangLen%6}, {c.Enzyme.Skip / 2, c.Enzyme.OverhangLen}, {c.Enzyme.Skip + 3, 1 + (c.Enzyme.OverhangLen+2)%6}} {
			o.Enzyme = refclone.Enzyme{Name: "custom", Site: c.Enzyme.Site, Skip: g[0], OverhangLen: g[1]}
			func() {
				defer func() { _ = recover() }()
				_, _ = cut(o, applyCase(c.Seq, c.CaseMask))
			}()
		}
	}()
	for ri, r := range rotations(c) {
		if c.Circular && exclude && refclone.InDoublingLossZone(want, L.N, c.Enzyme, len(c.Enzyme.Site), r) {
			vk.CountExcluded("rotation needs a site occurrence outside the doubled stored sequence (K-C10-1)")
			continue
		}
		rot := c.Seq[r:] + c.Seq[:r]
		in := applyCase(rot, c.CaseMask)
		nearest(c, in, ri)
		got, err := cut(c, in)
		if err != nil {
			return err
		}
		if !refclone.SameMultiset(got, want) {
			return vk.Errf("%s (skip %d, overhang %d) on %s %q%s: got %s, geometry gives %s", c.Enzyme.Site, c.Enzyme.Skip, c.Enzyme.OverhangLen,
				map[bool]string{true: "circular", false: "linear"}[c.Circular], in, map[bool]string{true: fmt.Sprintf(" (rotation %d of the case)", r), false: ""}[c.Circular],
				refclone.Show(got), refclone.Show(want))
		}
		// case is irrelevant: the upper-case spelling gives the same list
		if in != rot {
			got2, err := cut(c, rot)
			if err != nil {
				return err
			}
			if !refclone.SameMultiset(got2, got) {
				return vk.Errf("letter case changes the digestion of %q: %s vs %s", in, refclone.Show(got), refclone.Show(got2))
			}
		}
	}
	// the other strand of the same molecule, as a database may store it (at another origin when circular): directly after
	// the calls above, it is digested to what the geometry gives on that spelling
	other := ref.RevComp(c.Seq)
	if c.Circular && len(other) > 1 {
		r := int(c.CaseMask % uint64(len(other)))
		other = other[r:] + other[:r]
	}
	if wantOther, LO := refclone.Digest(other, c.Circular, c.Enzyme); LO.Valid {
		if !(c.Circular && exclude && refclone.InDoublingLossZone(wantOther, LO.N, c.Enzyme, len(c.Enzyme.Site), 0)) {
			got, err := cut(c, applyCase(other, c.CaseMask>>3))
			if err != nil {
				return err
			}
			if !refclone.SameMultiset(got, wantOther) {
				return vk.Errf("%s (skip %d, overhang %d) on the %s other strand %q, digested after the strand %q: got %s, geometry gives %s", c.Enzyme.Site, c.Enzyme.Skip, c.Enzyme.OverhangLen,
					map[bool]string{true: "circular", false: "linear"}[c.Circular], other, c.Seq, refclone.Show(got), refclone.Show(wantOther))
			}
		}
	} else {
		vk.Count("other strand's layout outside the domain (not judged): "+LO.Why, 1)
	}
	return nil
}

// nearest makes the call that directly precedes a judged one a call that differs from it in a single argument - which
// argument changes from one judged call to the next: the directional flag, the topology, the enzyme's reach, the
// enzyme. The result is discarded; such a layout need not be in the domain, so whatever happens to it is not judged.
func nearest(c Case, in string, k int) {
	defer func() { _ = recover() }()
	o := c
	o.ByName = false
	switch (k + len(c.Seq)) % 4 {
	case 0:
		if c.ByName {
			_, _ = clone.CutWithEnzymeByName(clone.Part{Sequence: in, Circular: c.Circular}, false, c.Enzyme.Name)
		} else {
			_ = clone.CutWithEnzyme(clone.Part{Sequence: in, Circular: c.Circular}, false, polyEnzyme(c.Enzyme))
		}
		return
	case 1:
		o.Circular = !c.Circular
	case 2:
		o.Enzyme = refclone.Enzyme{Name: "custom", Site: c.Enzyme.Site, Skip: c.Enzyme.Skip + 1, OverhangLen: c.Enzyme.OverhangLen}
	case 3:
		o.Enzyme = refclone.Enzyme{Name: "custom", Site: c.Enzyme.Site, Skip: c.Enzyme.Skip, OverhangLen: 1 + c.Enzyme.OverhangLen%6}
	}
	_, _ = cut(o, in)
}

func straddles(L refclone.Layout, e refclone.Enzyme, r int) bool {
	return refclone.OriginInsideSpan(L, e, len(e.Site), r)
}

func nonTrivial(c Case) bool {
	want, L := refclone.Digest(c.Seq, c.Circular, c.Enzyme)
	if !L.Valid || len(want) == 0 {
		return false
	}
	if len(want) >= 2 {
		return true
	}
	if c.Circular {
		for _, r := range rotations(c) {
			if straddles(L, c.Enzyme, r) {
				return true
			}
		}
	}
	return false
}

func labels(c Case) []string {
	want, L := refclone.Digest(c.Seq, c.Circular, c.Enzyme)
	l := []string{"enzyme:" + c.Enzyme.Name}
	if c.Circular {
		l = append(l, "circular")
	} else {
		l = append(l, "linear")
	}
	switch n := len(c.Seq); {
	case n >= 2700:
		l = append(l, "length 2700..3000")
	case n >= 1000:
		l = append(l, "length 1000..2699")
	case n > 300:
		l = append(l, "length 301..999")
	default:
		l = append(l, "length 20..300")
	}
	if !L.Valid {
		return append(l, "discarded: "+L.Why)
	}
	l = append(l, fmt.Sprintf("fragments:%d", min(len(want), 4)), fmt.Sprintf("sites:%d", min(len(L.Sites), 7)))
	for i := range want {
		for j := i + 1; j < len(want); j++ {
			if want[i].Forward == want[j].Forward && want[i].Interior == want[j].Interior && want[i].Reverse == want[j].Reverse {
				l = append(l, "two identical fragments expected")
				i = len(want)
				break
			}
		}
	}
	if len(L.Sites) > len(L.Cuts) {
		l = append(l, "linear: a cut region leaves the sequence")
	}
	if c.Circular {
		for _, r := range rotations(c) {
			if straddles(L, c.Enzyme, r) {
				l = append(l, "a rotation puts the origin inside a site-to-cut span")
				break
			}
		}
	}
	// a reverse overhang ending exactly where a forward overhang starts
	for _, a := range L.Cuts {
		for _, b := range L.Cuts {
			if !a.Forward && b.Forward && (a.Start+c.Enzyme.OverhangLen)%max(1, L.N) == b.Start%max(1, L.N) {
				l = append(l, "reverse overhang abuts a forward overhang")
			}
		}
	}
	return l
}

func sample(c Case) any {
	s := c.Seq
	return map[string]any{"enzyme": c.Enzyme, "by_name": c.ByName, "circular": c.Circular, "sequence": applyCase(s, c.CaseMask), "all_rotations": c.AllRotations, "rotations": c.Rotations}
}

func genEnzyme(t *rapid.T) (refclone.Enzyme, bool) {
	if rapid.IntRange(0, 9).Draw(t, "custom_enzyme") < 6 {
		name := rapid.SampledFrom([]string{"BsaI", "BbsI", "BtgZI"}).Draw(t, "enzyme")
		return refclone.BuiltIn[name], rapid.Bool().Draw(t, "by_name")
	}
	for {
		n := rapid.IntRange(4, 8).Draw(t, "site_len")
		b := make([]byte, n)
		for i := range b {
			b[i] = "ACGT"[rapid.IntRange(0, 3).Draw(t, "site_letter")]
		}
		site := string(b)
		if site == ref.RevComp(site) {
			// palindromic: make it non-palindromic by construction rather than rejecting
			if b[0] == 'A' {
				b[0] = 'C'
			} else {
				b[0] = 'A'
			}
			site = string(b)
			if site == ref.RevComp(site) {
				continue
			}
		}
		e := refclone.Enzyme{Name: "custom", Site: site, Skip: rapid.IntRange(0, 14).Draw(t, "skip"), OverhangLen: rapid.IntRange(1, 6).Draw(t, "overhang_len")}
		// one custom enzyme in four sits at a corner of the geometry: no skip, the longest skip, an overhang longer than
		// site plus skip (the cut span reaches further than the site is long), a one-base overhang
		switch rapid.IntRange(0, 15).Draw(t, "corner_geometry") {
		case 0:
			e.Skip = 0
		case 1:
			e.Skip, e.OverhangLen = 0, max(e.OverhangLen, min(6, len(site)+1))
		case 2:
			e.Skip = 14
		case 3:
			e.OverhangLen = 1
		}
		return e, false
	}
}

// scrub replaces accidental occurrences of the site (either strand) inside filler.
func filler(t *rapid.T, name string, n int, e refclone.Enzyme) string {
	var s string
	if n <= 40 {
		b := make([]byte, n)
		for i := range b {
			b[i] = "ACGT"[rapid.IntRange(0, 3).Draw(t, name)]
		}
		s = string(b)
	} else {
		s = vk.Fill(rapid.Uint64().Draw(t, name+"_fill"), n, "ACGT")
	}
	return s
}

func gen(t *rapid.T) Case {
	e, byName := genEnzyme(t)
	c := Case{Enzyme: e, ByName: byName, Circular: rapid.Bool().Draw(t, "circular"), CaseMask: 0}
	if rapid.Bool().Draw(t, "mixed_case") {
		c.CaseMask = rapid.Uint64().Draw(t, "case_mask")
	}
	nsites := rapid.SampledFrom([]int{0, 1, 2, 2, 2, 3, 4, 4, 5, 6}).Draw(t, "n_sites")
	paired := rapid.Bool().Draw(t, "alternate_orientation") // forward, reverse, forward, ... gives fragments more often
	span := len(e.Site) + e.Skip + e.OverhangLen
	gap := func(i int) int {
		switch rapid.IntRange(0, 9).Draw(t, fmt.Sprintf("gap%d_class", i)) {
		case 0, 1:
			return rapid.IntRange(0, 3).Draw(t, fmt.Sprintf("gap%d_tight", i))
		case 2, 3, 4:
			return rapid.IntRange(span-2, span+3*e.OverhangLen).Draw(t, fmt.Sprintf("gap%d_near", i))
		case 5:
			return rapid.IntRange(100, 900).Draw(t, fmt.Sprintf("gap%d_big", i))
		default:
			return rapid.IntRange(2*span, 2*span+60).Draw(t, fmt.Sprintf("gap%d", i))
		}
	}
	var pieces []string // filler, site, filler, site, ..., filler
	for i := 0; i < nsites; i++ {
		pieces = append(pieces, filler(t, fmt.Sprintf("filler%d", i), gap(i), e))
		fwd := i%2 == 0
		if !paired || rapid.IntRange(0, 4).Draw(t, fmt.Sprintf("site%d_flip", i)) == 0 {
			fwd = rapid.Bool().Draw(t, fmt.Sprintf("site%d_forward", i))
		}
		if fwd {
			pieces = append(pieces, e.Site)
		} else {
			pieces = append(pieces, ref.RevComp(e.Site))
		}
	}
	pieces = append(pieces, filler(t, "filler_end", gap(nsites), e))
	// one layout in six with two or three sites is laid out twice in a row (a tandem duplication), so
	// that a digestion releases byte-identical fragments: they count as often as they occur
	if (nsites == 2 || nsites == 3) && rapid.IntRange(0, 5).Draw(t, "tandem") == 0 {
		pieces = append(pieces, pieces...)
		nsites *= 2
	}
	// one layout in four is stretched to a chosen total length (the top of the range, an edge size or
	// any length to 3000) by lengthening one gap, so that long parts occur with sites anywhere in them
	if rapid.IntRange(0, 3).Draw(t, "stretch") == 0 {
		total := 0
		for _, p := range pieces {
			total += len(p)
		}
		var target int
		switch rapid.IntRange(0, 2).Draw(t, "target_class") {
		case 0:
			target = rapid.IntRange(2700, 3000).Draw(t, "target_top")
		case 1:
			e := vk.EdgeSizes(500, 3000)
			target = e[rapid.IntRange(0, len(e)-1).Draw(t, "target_edge")]
		default:
			target = rapid.IntRange(300, 3000).Draw(t, "target")
		}
		if extra := target - total; extra > 0 {
			j := 2 * rapid.IntRange(0, (len(pieces)-1)/2).Draw(t, "stretched_gap")
			pieces[j] += vk.Fill(rapid.Uint64().Draw(t, "stretch_fill"), extra, "ACGT")
		}
	}
	s := strings.Join(pieces, "")
	for len(s) < 20 {
		s += filler(t, "pad", 20-len(s), e)
	}
	if len(s) > 3000 {
		s = s[:3000]
	}
	c.Seq = s
	if c.Circular {
		if len(s) <= 300 {
			c.AllRotations = true
		} else {
			c.Rotations = rapid.SliceOfN(rapid.IntRange(0, 1<<30), 20, 20).Draw(t, "rotations")
			// aim some rotations at the sites themselves
			for i := 0; i < 6; i++ {
				c.Rotations = append(c.Rotations, rapid.IntRange(0, len(s)-1).Draw(t, "rotation_near"))
			}
		}
	}
	return c
}

var subLayouts = vk.Register(&vk.Sub[Case]{Name: "layouts", Gen: gen, Check: check, NonTrivial: nonTrivial, Labels: labels, Sample: sample})

func TestSub_layouts(t *testing.T) { vk.RunRapid(t, subLayouts) }

var subEnds = vk.Register(&vk.Sub[Case]{Name: "ends", Check: check, NonTrivial: nonTrivial, Labels: labels, Sample: sample})

// TestSub_ends: two sites near the two ends of a short part, every small distance - the layouts on which a cut falls at, next
// to or beyond the first or the last base of a linear part ("a linear part never yields a fragment needing bases beyond its
// ends"), and on which the stored origin of a circular part falls inside or next to a site or cut span.
func TestSub_ends(t *testing.T) {
	enzymes := []refclone.Enzyme{refclone.BuiltIn["BsaI"], refclone.BuiltIn["BbsI"], refclone.BuiltIn["BtgZI"]}
	for _, site := range []string{"CACC", "GAAGC"} {
		for _, g := range [][2]int{{0, 6}, {0, 5}, {0, 1}, {1, 6}, {1, 4}, {2, 3}, {3, 6}, {5, 2}, {12, 4}, {14, 2}} {
			enzymes = append(enzymes, refclone.Enzyme{Name: "custom", Site: site, Skip: g[0], OverhangLen: g[1]})
		}
	}
	space := "3 built-in and 20 custom geometries (sites of 4 and 5 letters, skip 0..5, 12 and 14, overhang 1..6) x two sites in each of the 4 orientation pairs x every leading, middle and trailing gap of 0..skip+overhang+2 letters (capped at 9 for the leading and trailing gap), linear; every 5th layout also circular at every rotation"
	vk.RunEnum(t, subEnds, space, true, func(yield func(Case) bool) {
		k := 0
		for _, e := range enzymes {
			reach := e.Skip + e.OverhangLen + 2
			rs := ref.RevComp(e.Site)
			for _, pair := range [][2]string{{e.Site, rs}, {rs, e.Site}, {e.Site, e.Site}, {rs, rs}} {
				for g0 := 0; g0 <= min(reach, 9); g0++ {
					for g1 := 0; g1 <= 2*reach; g1++ {
						for g2 := 0; g2 <= min(reach, 9); g2++ {
							k++
							fill := vk.Fill(uint64(k)+vk.Seed(), g0+g1+g2, "ACGT")
							seq := fill[:g0] + pair[0] + fill[g0:g0+g1] + pair[1] + fill[g0+g1:]
							for len(seq) < 20 { // the domain starts at 20 bases: lengthen the middle
								seq = seq[:g0+len(e.Site)] + "T" + seq[g0+len(e.Site):]
							}
							c := Case{Enzyme: e, ByName: e.Name != "custom" && k%2 == 0, Seq: seq}
							if k%3 == 0 {
								c.CaseMask = uint64(k) * 0x9E3779B97F4A7C15
							}
							if !yield(c) {
								return
							}
							if k%5 == 0 {
								c.Circular, c.AllRotations = true, true
								if !yield(c) {
									return
								}
							}
						}
					}
				}
			}
			if vk.Pick(0, 1) == 0 {
				continue
			}
			// thorough: three sites in each of the 8 orientation triples, every gap from {0, 1, 2, 3, reach-1, reach, reach+1}
			gaps := []int{0, 1, 2, 3, reach - 1, reach, reach + 1}
			for o := 0; o < 8; o++ {
				site := func(bit int) string {
					if o>>bit&1 == 1 {
						return rs
					}
					return e.Site
				}
				for _, g0 := range gaps {
					for _, g1 := range gaps {
						for _, g2 := range gaps {
							for _, g3 := range gaps {
								k++
								fill := vk.Fill(uint64(k)+vk.Seed(), g0+g1+g2+g3, "ACGT")
								seq := fill[:g0] + site(0) + fill[g0:g0+g1] + site(1) + fill[g0+g1:g0+g1+g2] + site(2) + fill[g0+g1+g2:]
								for len(seq) < 20 {
									seq += "T"
								}
								c := Case{Enzyme: e, ByName: e.Name != "custom" && k%2 == 0, Seq: seq, Circular: k%4 == 0}
								c.AllRotations = c.Circular
								if !yield(c) {
									return
								}
							}
						}
					}
				}
			}
		}
	})
}

func TestReplay(t *testing.T) { vk.Replay(t) }

// native coverage-guided fuzzing over the same generator and oracle (thorough tier)
var subNativeFuzz = vk.Register(&vk.Sub[Case]{Name: "layouts_fuzz", Gen: gen, Check: check})

func FuzzSub_layouts_fuzz(f *testing.F) { vk.RunFuzz(f, subNativeFuzz) }
