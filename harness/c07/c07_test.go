// C07 — optimized coding sequences translate back to the requested protein.
package c07

import (
	"fmt"
	"math"
	"reflect"
	"strings"
	"testing"

	"github.com/TimothyStiles/poly/random"
	"github.com/TimothyStiles/poly/transform/codon"
	"pgregory.net/rapid"
	"verifharness/internal/ctab"
	"verifharness/internal/ref"
	"verifharness/internal/vk"
)

type Case struct {
	Table   ctab.Spec `json:"table"`
	Kind    string    `json:"kind"`              // protein | generated | unencodable | proportional
	Protein string    `json:"protein,omitempty"` // protein / unencodable
	Len     int       `json:"len,omitempty"`     // generated: arguments of random.ProteinSequence
	Seed    int64     `json:"seed,omitempty"`
	Residue string    `json:"residue,omitempty"` // proportional: the residue pooled
	Calls   int       `json:"calls,omitempty"`   // proportional: Optimize calls of 2000 residues each
}

// eligible: codons of the residue whose share among synonyms is above 10 % (exact integers).
func eligible(f ctab.Flat, letter string) (codons []string, total int) {
	sum := f.ClassTotal(letter)
	for _, c := range f.Classes[letter] {
		if 10*f.W[c] > sum {
			codons = append(codons, c)
			total += f.W[c]
		}
	}
	return
}

func encodable(f ctab.Flat, letter string) bool {
	cs, _ := eligible(f, letter)
	return len(cs) > 0
}

func optimize(p string, t codon.Table) (dna string, err error, panicked any) {
	defer func() {
		if r := recover(); r != nil {
			panicked = r
		}
	}()
	dna, err = codon.Optimize(p, t)
	return
}

func checkBack(what, p string, t codon.Table, f ctab.Flat) error {
	dna, err, pan := optimize(p, t)
	if pan != nil {
		return vk.Errf("Optimize(%q) with %s panicked: %v", p, what, pan)
	}
	if err != nil {
		return vk.Errf("Optimize(%q) with %s returned error %v although every residue is encodable", p, what, err)
	}
	if len(dna) != 3*len(p) {
		return vk.Errf("Optimize(%q) with %s returned %d bases for %d residues", p, what, len(dna), len(p))
	}
	if f2, err := ctab.Flatten(t); err != nil || !reflect.DeepEqual(f2.W, f.W) || !reflect.DeepEqual(f2.L, f.L) {
		return vk.Errf("Optimize(%q) with %s changed the table it was given (%v)", p, what, err)
	}
	back, err := codon.Translate(dna, t)
	if err != nil || back != p {
		return vk.Errf("Optimize(%q) with %s = %q, which translates back to %q (err %v)", p, what, dna, back, err)
	}
	for i := 0; i < len(p); i++ {
		cd, l := dna[3*i:3*i+3], string(p[i])
		if f.L[cd] != l {
			return vk.Errf("Optimize with %s encodes residue %d %q as %s (%q in the table)", what, i, l, cd, f.L[cd])
		}
		if sum := f.ClassTotal(l); !(10*f.W[cd] > sum) {
			return vk.Errf("Optimize with %s emitted %s for %q: weight %d of %d among synonyms is not above 10 %%", what, cd, l, f.W[cd], sum)
		}
	}
	return nil
}

func check(c Case) error {
	// a table that was re-weighted before (ctab.Spec.Twice) has been used for an Optimize call in that earlier
	// state: what the judged call does must depend on the table's present weights only
	t := c.Table.BuildWith(func(earlier codon.Table) {
		defer func() { _ = recover() }()
		_, _ = codon.Optimize("MKVLAAGIW*"+c.Protein, earlier)
	})
	f, err := ctab.Flatten(t)
	if err != nil {
		// the same spec built without the Optimize call in between: if that table is sound, the call damaged it
		if _, plainErr := ctab.Flatten(c.Table.Build()); plainErr == nil {
			return vk.Errf("after an Optimize call on its earlier weights and a re-weighting in place, %s is no longer a table: %v (built without that call it is sound: Optimize changed the table it was given)", c.Table.String(), err)
		}
		return vk.Harnessf("table: %v", err)
	}
	what := c.Table.String()
	switch c.Kind {
	case "published":
		// "default table i" is NCBI genetic code i: the synonyms among which Optimize draws for a residue of a default
		// table are the codons the published code assigns to that residue
		g, ok := ref.GeneticCodeByID(c.Table.ID)
		if !ok {
			return vk.Harnessf("no reference for table %d", c.Table.ID)
		}
		for _, cd := range ref.AllCodons() {
			if f.L[cd] != string(g.AminoAcid(cd)) {
				return vk.Errf("default table %d lists %s among the codons of %q; genetic code %d (%s) assigns it to %q, so Optimize with default table %d draws for %q and for %q from the wrong synonyms",
					c.Table.ID, cd, f.L[cd], c.Table.ID, g.Name, g.AminoAcid(cd), c.Table.ID, f.L[cd], g.AminoAcid(cd))
			}
		}
		return nil
	case "protein":
		return checkBack(what, c.Protein, t, f)
	case "generated":
		p, err := random.ProteinSequence(c.Len, c.Seed)
		if err != nil {
			return vk.Errf("random.ProteinSequence(%d, %d): %v", c.Len, c.Seed, err)
		}
		if len(p) != c.Len || p[0] != 'M' || p[len(p)-1] != '*' {
			return vk.Errf("random.ProteinSequence(%d, %d) = %q: want length %d, leading M, trailing *", c.Len, c.Seed, p, c.Len)
		}
		if p2, _ := random.ProteinSequence(c.Len, c.Seed); p2 != p {
			return vk.Errf("random.ProteinSequence(%d, %d) is not a function of its arguments", c.Len, c.Seed)
		}
		for i := 0; i < len(p); i++ {
			if !encodable(f, string(p[i])) {
				// the table cannot encode this residue: rejection, not a crash
				if string(p[i]) != "*" {
					return vk.Errf("random.ProteinSequence(%d, %d) contains %q, which is not one of the 20 amino acids of %s", c.Len, c.Seed, p[i], what)
				}
				_, err, pan := optimize(p, t)
				if pan != nil {
					return vk.Errf("Optimize(generated protein with '*') with %s, which has no stop codon, panicked: %v", what, pan)
				}
				if err == nil {
					return vk.Errf("Optimize accepted '*' with %s, which has no stop codon", what)
				}
				return nil
			}
		}
		return checkBack(what, p, t, f)
	case "unencodable":
		bad := false
		for i := 0; i < len(c.Protein); i++ {
			if !encodable(f, string(c.Protein[i])) {
				bad = true
			}
		}
		if !bad {
			return vk.Harnessf("generator produced an encodable protein for the unencodable clause: %q with %s", c.Protein, what)
		}
		dna, err, pan := optimize(c.Protein, t)
		if pan != nil {
			return vk.Errf("Optimize(%q) with %s crashed instead of returning an error: %v", c.Protein, what, pan)
		}
		if err == nil {
			return vk.Errf("Optimize(%q) with %s returned %q without an error although the table cannot encode every residue", c.Protein, what, dna)
		}
		return nil
	case "proportional":
		codons, total := eligible(f, c.Residue)
		if len(codons) == 0 {
			return vk.Harnessf("proportional clause on an unencodable residue %q", c.Residue)
		}
		measure := func(calls int) (map[string]int, int, error) {
			counts := map[string]int{}
			p := strings.Repeat(c.Residue, 2000)
			for k := 0; k < calls; k++ {
				dna, err, pan := optimize(p, t)
				if pan != nil || err != nil {
					return nil, 0, vk.Errf("Optimize of 2000 x %q with %s failed: %v %v", c.Residue, what, err, pan)
				}
				if len(dna) != 6000 {
					return nil, 0, vk.Errf("Optimize of 2000 x %q returned %d bases", c.Residue, len(dna))
				}
				for i := 0; i < 2000; i++ {
					counts[dna[3*i:3*i+3]]++
				}
			}
			return counts, calls * 2000, nil
		}
		judge := func(counts map[string]int, n int) error {
			for cd := range counts {
				if f.L[cd] != c.Residue || !(10*f.W[cd] > f.ClassTotal(c.Residue)) {
					return vk.Errf("Optimize with %s emitted %s for %q (weight %d of %d)", what, cd, c.Residue, f.W[cd], f.ClassTotal(c.Residue))
				}
			}
			for _, cd := range codons {
				p := float64(f.W[cd]) / float64(total)
				exp := float64(n) * p
				bound := 7*math.Sqrt(float64(n)*p*(1-p)) + 1
				if d := math.Abs(float64(counts[cd]) - exp); d > bound {
					return vk.Errf("with %s, residue %q: codon %s (weight %d of %d eligible) was chosen %d times in %d draws, expected %.0f +/- %.0f (7 sigma)", what, c.Residue, cd, f.W[cd], total, counts[cd], n, exp, bound)
				}
			}
			return nil
		}
		counts, n, err := measure(c.Calls)
		if err != nil {
			return err
		}
		if judge(counts, n) == nil {
			return nil
		}
		// re-measure once with four times the draws before reporting a statistical failure
		counts, n, err = measure(4 * c.Calls)
		if err != nil {
			return err
		}
		return judge(counts, n)
	}
	return vk.Harnessf("unknown kind %q", c.Kind)
}

func nonTrivial(c Case) bool {
	f, _ := ctab.Flatten(c.Table.Build())
	interesting := func(l string) bool {
		cs, _ := eligible(f, l)
		if len(cs) < len(f.Classes[l]) && len(cs) > 0 {
			return true // a synonym is excluded by the 10 % rule
		}
		for _, a := range cs {
			if f.W[a] != f.W[cs[0]] {
				return true // >= 2 eligible codons of different weight
			}
		}
		return false
	}
	switch c.Kind {
	case "proportional":
		cs, _ := eligible(f, c.Residue)
		return len(cs) >= 2
	case "unencodable":
		return true
	case "generated":
		return c.Len > 3
	}
	for i := 0; i < len(c.Protein); i++ {
		if interesting(string(c.Protein[i])) {
			return true
		}
	}
	return false
}

func labels(c Case) []string {
	l := []string{"kind:" + c.Kind}
	if c.Table.Reweight {
		l = append(l, "re-weighted table")
	} else {
		l = append(l, "default table")
	}
	if c.Kind == "unencodable" {
		f, _ := ctab.Flatten(c.Table.Build())
		for i := 0; i < len(c.Protein); i++ {
			ch := string(c.Protein[i])
			if encodable(f, ch) {
				continue
			}
			switch {
			case ch >= "a" && ch <= "z":
				l = append(l, "unencodable: lower case")
			case len(f.Classes[ch]) > 0:
				l = append(l, "unencodable: all synonyms have weight 0")
			default:
				l = append(l, "unencodable: letter absent from the table")
			}
		}
	}
	return l
}

func sample(c Case) any {
	m := map[string]any{"table": c.Table.String(), "kind": c.Kind}
	switch c.Kind {
	case "generated":
		m["random.ProteinSequence"] = []any{c.Len, c.Seed}
	case "proportional":
		m["residue"], m["draws"] = c.Residue, c.Calls*2000
	default:
		m["protein"] = c.Protein
	}
	return m
}

func drawProtein(t *rapid.T, f ctab.Flat, lo, hi int) string {
	var letters []string
	for _, l := range f.Letters() {
		if encodable(f, l) {
			letters = append(letters, l)
		}
	}
	n := 0
	switch rapid.IntRange(0, 9).Draw(t, "protein_size") {
	case 0:
		n = rapid.IntRange(min(hi, 200), hi).Draw(t, "protein_len_big")
	default:
		n = rapid.IntRange(lo, min(hi, 60)).Draw(t, "protein_len")
	}
	if n > 80 {
		// bulk: filler over the encodable letters (one byte per letter)
		return vk.Fill(rapid.Uint64().Draw(t, "protein_fill"), n, strings.Join(letters, ""))
	}
	var b strings.Builder
	for i := 0; i < n; i++ {
		b.WriteString(rapid.SampledFrom(letters).Draw(t, "residue"))
	}
	return b.String()
}

func genProtein(t *rapid.T) Case {
	c := Case{Kind: "protein", Table: ctab.DrawSpec(t, "table", rapid.Bool().Draw(t, "cover"), vk.Pick(3000, 30000))}
	f, _ := ctab.Flatten(c.Table.Build())
	any := false
	for _, l := range f.Letters() {
		any = any || encodable(f, l)
	}
	if !any {
		c.Table = ctab.Spec{ID: c.Table.ID}
		f, _ = ctab.Flatten(c.Table.Build())
	}
	c.Protein = drawProtein(t, f, 1, 2000)
	return c
}

func genGenerated(t *rapid.T) Case {
	return Case{Kind: "generated", Table: ctab.Spec{ID: rapid.SampledFrom(ctab.IDs()).Draw(t, "table_id")},
		Len: rapid.IntRange(3, 400).Draw(t, "len"), Seed: rapid.Int64().Draw(t, "seed")}
}

func genUnencodable(t *rapid.T) Case {
	c := Case{Kind: "unencodable", Table: ctab.DrawSpec(t, "table", false, 3000)}
	f, _ := ctab.Flatten(c.Table.Build())
	// candidates: lower case, letters absent from the table, residues whose synonyms all have weight 0
	// (the non-ASCII ones share their low byte, or a case mapping, with an amino-acid letter: U+0141 / A, U+014B / K,
	// U+044D / M, the Kelvin sign, long s, dotless i, full-width A; a lone high byte is not even a letter)
	cands := []string{"a", "m", "k", "l", "J", "B", "X", "Z", "U", "O", "1", " ", "-", "?", "é", "\u0141", "\u014b", "\u044d", "\u212a", "\u017f", "\u0131", "\uff21", "\xc1", "\x00"}
	for _, l := range []string{"*", "W", "M", "K", "C"} {
		if !encodable(f, l) {
			cands = append(cands, l, l, l)
		}
	}
	var ok []string
	for _, x := range cands {
		if !encodable(f, x) {
			ok = append(ok, x)
		}
	}
	bad := rapid.SampledFrom(ok).Draw(t, "unencodable_residue")
	any := false
	for _, l := range f.Letters() {
		any = any || encodable(f, l)
	}
	host := ""
	if any {
		host = drawProtein(t, f, 0, 50)
	}
	at := func(name string) int {
		switch rapid.IntRange(0, 3).Draw(t, name+"_where") {
		case 0:
			return 0
		case 1:
			return len(host)
		}
		return rapid.IntRange(0, len(host)).Draw(t, name)
	}
	switch rapid.IntRange(0, 4).Draw(t, "shape") {
	case 0, 1: // one unencodable residue
		pos := at("at")
		c.Protein = host[:pos] + bad + host[pos:]
	case 2: // a run of the same unencodable residue
		pos := at("at")
		c.Protein = host[:pos] + strings.Repeat(bad, rapid.IntRange(2, 4).Draw(t, "run")) + host[pos:]
	case 3: // several, possibly different, at separate places
		c.Protein = host
		for i, k := 0, rapid.IntRange(2, 4).Draw(t, "how_many"); i < k; i++ {
			b := rapid.SampledFrom(ok).Draw(t, "another_unencodable_residue")
			pos := rapid.IntRange(0, len(c.Protein)).Draw(t, "another_at")
			c.Protein = c.Protein[:pos] + b + c.Protein[pos:]
		}
	default: // the whole protein in lower case (every residue unencodable), or nothing but the bad residue
		if host != "" && strings.ToLower(host) != host {
			c.Protein = strings.ToLower(host)
		} else {
			c.Protein = strings.Repeat(bad, rapid.IntRange(1, 3).Draw(t, "only"))
		}
	}
	return c
}

func genProportional(t *rapid.T) Case {
	c := Case{Kind: "proportional", Table: ctab.DrawSpec(t, "table", true, 3000), Calls: vk.Pick(50, 250)}
	f, _ := ctab.Flatten(c.Table.Build())
	var letters []string
	for _, l := range f.Letters() {
		if cs, _ := eligible(f, l); len(cs) >= 2 {
			letters = append(letters, l)
		}
	}
	c.Residue = rapid.SampledFrom(letters).Draw(t, "residue")
	return c
}

// genBoundary aims at the 10 % threshold: a two-synonym residue whose rarer codon has a usage
// share of exactly 10 %, one count above, one count below, or 11 %.
func genBoundary(t *rapid.T) Case {
	id := rapid.SampledFrom(ctab.IDs()).Draw(t, "table_id")
	f, _ := ctab.Flatten(ctab.Spec{ID: id}.Build())
	var two []string
	for _, l := range f.Letters() {
		if len(f.Classes[l]) == 2 {
			two = append(two, l)
		}
	}
	res := rapid.SampledFrom(two).Draw(t, "residue")
	cs := f.Classes[res]
	if rapid.Bool().Draw(t, "swap") {
		cs = []string{cs[1], cs[0]}
	}
	total := rapid.SampledFrom([]int{10, 20, 50, 100, 1000, 5000}).Draw(t, "class_total")
	delta := rapid.SampledFrom([]int{0, 1, -1, total / 100}).Draw(t, "delta")
	a := total/10 + delta
	b := total - a
	seq := ctab.EveryCodonOnce + strings.Repeat(cs[0], max(0, a-1)) + strings.Repeat(cs[1], b-1)
	return Case{Kind: "proportional", Table: ctab.Spec{ID: id, Reweight: true, Seq: vk.SeqSpec{Lit: seq}}, Residue: res, Calls: vk.Pick(50, 250)}
}

var subBoundary = vk.Register(&vk.Sub[Case]{Name: "boundary", Gen: genBoundary, Check: check, NonTrivial: func(Case) bool { return true }, Labels: labels, Sample: sample})

func TestSub_boundary(t *testing.T) { vk.RunRapid(t, subBoundary) }

var subProtein = vk.Register(&vk.Sub[Case]{Name: "protein", Gen: genProtein, Check: check, NonTrivial: nonTrivial, Labels: labels, Sample: sample})
var subGenerated = vk.Register(&vk.Sub[Case]{Name: "generated", Gen: genGenerated, Check: check, NonTrivial: nonTrivial, Labels: labels, Sample: sample})
var subUnencodable = vk.Register(&vk.Sub[Case]{Name: "unencodable", Gen: genUnencodable, Check: check, NonTrivial: nonTrivial, Labels: labels, Sample: sample})
var subProportional = vk.Register(&vk.Sub[Case]{Name: "proportional", Gen: genProportional, Check: check, NonTrivial: nonTrivial, Labels: labels, Sample: sample})
var subDefaults = vk.Register(&vk.Sub[Case]{Name: "defaults", Check: check, NonTrivial: nonTrivial, Sample: sample})

func TestSub_protein(t *testing.T)      { vk.RunRapid(t, subProtein) }
func TestSub_generated(t *testing.T)    { vk.RunRapid(t, subGenerated) }
func TestSub_unencodable(t *testing.T)  { vk.RunRapid(t, subUnencodable) }
func TestSub_proportional(t *testing.T) { vk.RunRapid(t, subProportional) }

// defaults: every residue of every default table: a protein made of each letter translates back,
// and the draws are uniform over the synonyms (all weights are 1).
func TestSub_defaults(t *testing.T) {
	calls := vk.Pick(10, 100)
	vk.RunEnum(t, subDefaults, fmt.Sprintf("25 default tables x every letter of the table: round trip of a 300-residue protein and %d pooled draws per (table, residue)", calls*2000), true, func(yield func(Case) bool) {
		for _, id := range ctab.IDs() {
			f, _ := ctab.Flatten(ctab.Spec{ID: id}.Build())
			if !yield(Case{Kind: "published", Table: ctab.Spec{ID: id}}) {
				return
			}
			for _, l := range f.Letters() {
				if !yield(Case{Kind: "protein", Table: ctab.Spec{ID: id}, Protein: strings.Repeat(l, 300)}) {
					return
				}
				if len(f.Classes[l]) >= 2 {
					if !yield(Case{Kind: "proportional", Table: ctab.Spec{ID: id}, Residue: l, Calls: calls}) {
						return
					}
				}
			}
		}
	})
}

func TestReplay(t *testing.T) { vk.Replay(t) }
