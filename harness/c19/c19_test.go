// C19 — melting temperatures follow the nearest-neighbour formula monotonically.
package c19

import (
	"fmt"
	"math"
	"strings"
	"sync"
	"testing"

	"github.com/TimothyStiles/poly/primers"
	"pgregory.net/rapid"
	"verifharness/internal/ref"
	"verifharness/internal/vk"
)

// SantaLucia & Hicks (2004) Annu. Rev. Biophys. Biomol. Struct. 33:415, table 1 (same values
// as SantaLucia 1998 PNAS 95:1460, table 2): the ten unique Watson-Crick nearest-neighbour
// pairs, dH in kcal/mol and dS in cal/(mol K). A pair and its reverse complement are the
// same stack.
var nn = map[string][2]float64{
	"AA": {-7.6, -21.3}, "AT": {-7.2, -20.4}, "TA": {-7.2, -21.3}, "CA": {-8.5, -22.7}, "GT": {-8.4, -22.4},
	"CT": {-7.8, -21.0}, "GA": {-8.2, -22.2}, "CG": {-10.6, -27.2}, "GC": {-9.8, -24.4}, "GG": {-8.0, -19.9},
}

const (
	initH, initS = 0.2, -5.7
	symS         = -1.4
	termH, termS = 2.2, 6.9
	gasR         = 1.9872
)

func stack(pair string) [2]float64 {
	if v, ok := nn[pair]; ok {
		return v
	}
	return nn[ref.RevComp(pair)]
}

// reference returns dH, dS (salt-corrected) and Tm. bothEnds selects the literature's
// terminal-A/T rule (one penalty per terminal A.T pair) instead of the 3'-end-only rule poly documents.
func reference(upper string, oligo, na, mg float64, bothEnds bool) (tm, dH, dS float64) {
	n := len(upper)
	dH, dS = initH, initS
	for i := 0; i+1 < n; i++ {
		v := stack(upper[i : i+2])
		dH += v[0]
		dS += v[1]
	}
	if last := upper[n-1]; last == 'A' || last == 'T' {
		dH += termH
		dS += termS
	}
	if first := upper[0]; bothEnds && (first == 'A' || first == 'T') {
		dH += termH
		dS += termS
	}
	f := 4.0
	if upper == ref.RevComp(upper) {
		dS += symS
		f = 1
	}
	dS += 0.368 * float64(n-1) * math.Log(na+140*mg)
	tm = 1000*dH/(dS+gasR*math.Log(oligo/f)) - 273.15
	return
}

func close(a, b float64) bool {
	return math.Abs(a-b) <= 1e-9*math.Max(1, math.Max(math.Abs(a), math.Abs(b)))
}

type Case struct {
	Seq      vk.SeqSpec `json:"seq"` // upper-case A/C/G/T, length >= 2
	CaseMask uint64     `json:"case_mask"`
	Grid     bool       `json:"grid,omitempty"` // evaluate the whole 4x4x4 concentration grid
	Oligo    float64    `json:"oligo,omitempty"`
	Na       float64    `json:"na,omitempty"`
	Mg       float64    `json:"mg,omitempty"`
	Factor   float64    `json:"factor,omitempty"` // >= 1.01: step for the monotonicity clause
	Junction string     `json:"junction,omitempty"`
	Left     string     `json:"left,omitempty"`
	Right    string     `json:"right,omitempty"`
	// Prior: an oligo evaluated immediately before the judged calls, its results discarded
	Prior string `json:"prior,omitempty"`
}

func applyCase(s string, mask uint64) string {
	b := []byte(s)
	for i := range b {
		if (mask>>(uint(i+i/64)%64))&1 == 1 {
			b[i] = b[i] - 'A' + 'a'
		}
	}
	return string(b)
}

var gridOligo = []float64{1e-9, 1e-7, 1e-5, 1e-3}
var gridNa = []float64{1e-3, 1e-2, 1e-1, 1}
var gridMg = []float64{0, 1e-3, 1e-2, 1e-1}

// terminalRule is the reading of "terminal-A/T term" that the tree under test follows, found once per process
// on an oligo where the two readings differ and nothing else enters (ACGG: 5' A, 3' G, not self-complementary):
// 0 = a penalty for a 3'-terminal A/T only (what poly documents), 1 = one for each terminal A.T pair (the
// literature), -1 = neither (then every point is judged against both, and fails both). The statement speaks of one
// formula: whichever reading it is, it is the same for every oligo.
var terminalRule = sync.OnceValue(func() int {
	tm, dH, dS := primers.SantaLucia("ACGG", 500e-9, 50e-3, 0)
	for r, both := range []bool{false, true} {
		wtm, wH, wS := reference("ACGG", 500e-9, 50e-3, 0, both)
		if close(dH, wH) && close(dS, wS) && close(tm, wtm) {
			return r
		}
	}
	return -1
})

func checkPoint(upper, in string, oligo, na, mg float64) (float64, error) {
	tm, dH, dS := primers.SantaLucia(in, oligo, na, mg)
	var firstErr error
	for r, both := range []bool{false, true} {
		if rule := terminalRule(); rule >= 0 && rule != r {
			continue
		}
		wtm, wH, wS := reference(upper, oligo, na, mg, both)
		if close(dH, wH) && close(dS, wS) && close(tm, wtm) {
			return tm, nil
		}
		if firstErr == nil {
			firstErr = vk.Errf("SantaLucia(%q, oligo=%g, Na=%g, Mg=%g) = (Tm %.9g, dH %.9g, dS %.9g); nearest-neighbour reference gives (Tm %.9g, dH %.9g, dS %.9g) [terminal-A/T term as on ACGG: %s]", in, oligo, na, mg, tm, dH, dS, wtm, wH, wS,
				map[bool]string{false: "3' end only", true: "both ends"}[both])
		}
	}
	return tm, firstErr
}

// siblings of a sequence: the same length with the first, the middle or the last letter changed - the same suffix,
// the same ends, the same prefix. They are evaluated first and their results discarded: a result must depend on the
// call's own arguments only.
func siblings(s string) []string {
	var out []string
	seen := map[int]bool{}
	for _, p := range []int{0, len(s) / 2, len(s) - 1} {
		if p < 0 || p >= len(s) || seen[p] {
			continue
		}
		seen[p] = true
		for k, o := range "ACGT" {
			if byte(o) == s[p] || (p != 0 && p != len(s)-1 && k != (strings.IndexByte("ACGT", s[p])+1)&3) {
				continue // the ends get every other letter, the middle one
			}
			b := []byte(s)
			b[p] = byte(o)
			out = append(out, string(b))
		}
	}
	return out
}

func check(c Case) error {
	upper := c.Seq.String()
	in := applyCase(upper, c.CaseMask)
	for _, sib := range siblings(upper) {
		_ = primers.MeltingTemp(sib)
		_, _, _ = primers.SantaLucia(sib, 500e-9, 50e-3, 0)
		_ = primers.MarmurDoty(sib)
	}
	if c.Prior != "" {
		_ = primers.MeltingTemp(c.Prior)
		_, _, _ = primers.SantaLucia(c.Prior, 500e-9, 50e-3, 0)
		_ = primers.MarmurDoty(c.Prior)
	}
	// the steps of growing the oligo base by base (primer design does that), ending with the one that lacks only the last base
	for _, st := range vk.Stems(upper) {
		_ = primers.MeltingTemp(st)
	}
	// Marmur-Doty
	at := strings.Count(upper, "A") + strings.Count(upper, "T")
	gc := strings.Count(upper, "G") + strings.Count(upper, "C")
	if got, want := primers.MarmurDoty(in), float64(2*at+4*gc-7); got != want {
		return vk.Errf("MarmurDoty(%q) = %v, 2(A+T)+4(G+C)-7 = %v", in, got, want)
	}
	// default-condition helper
	dtm, _, _ := primers.SantaLucia(in, 500e-9, 50e-3, 0)
	if got := primers.MeltingTemp(in); !close(got, dtm) {
		return vk.Errf("MeltingTemp(%q) = %.12g but SantaLucia at 500 nM / 50 mM / 0 = %.12g", in, got, dtm)
	}
	if _, err := checkPoint(upper, in, 500e-9, 50e-3, 0); err != nil {
		return err
	}
	if c.Grid {
		var tms [4][4][4]float64
		var h0 float64
		for i, o := range gridOligo {
			for j, na := range gridNa {
				for k, mg := range gridMg {
					tm, err := checkPoint(upper, in, o, na, mg)
					if err != nil {
						return err
					}
					tms[i][j][k] = tm
					_, dH, _ := primers.SantaLucia(in, o, na, mg)
					if i+j+k == 0 {
						h0 = dH
					} else if dH != h0 {
						return vk.Errf("dH of %q depends on concentrations: %v vs %v", in, h0, dH)
					}
				}
			}
		}
		for i := 0; i < 4; i++ {
			for j := 0; j < 4; j++ {
				for k := 0; k < 4; k++ {
					if i > 0 && !(tms[i][j][k] > tms[i-1][j][k]) {
						return vk.Errf("Tm of %q does not increase with oligo concentration %g -> %g at Na=%g Mg=%g: %v -> %v", in, gridOligo[i-1], gridOligo[i], gridNa[j], gridMg[k], tms[i-1][j][k], tms[i][j][k])
					}
					if j > 0 && !(tms[i][j][k] > tms[i][j-1][k]) {
						return vk.Errf("Tm of %q does not increase with sodium %g -> %g at oligo=%g Mg=%g: %v -> %v", in, gridNa[j-1], gridNa[j], gridOligo[i], gridMg[k], tms[i][j-1][k], tms[i][j][k])
					}
					if k > 0 && !(tms[i][j][k] > tms[i][j][k-1]) {
						return vk.Errf("Tm of %q does not increase with magnesium %g -> %g at oligo=%g Na=%g: %v -> %v", in, gridMg[k-1], gridMg[k], gridOligo[i], gridNa[j], tms[i][j][k-1], tms[i][j][k])
					}
				}
			}
		}
		return nil
	}
	// one random condition, case-independence, and a >= 1 % step along each axis
	tm, err := checkPoint(upper, in, c.Oligo, c.Na, c.Mg)
	if err != nil {
		return err
	}
	_, dH, dS := primers.SantaLucia(in, c.Oligo, c.Na, c.Mg)
	for _, v := range []string{upper, strings.ToLower(upper)} {
		t2, h2, s2 := primers.SantaLucia(v, c.Oligo, c.Na, c.Mg)
		if t2 != tm || h2 != dH || s2 != dS {
			return vk.Errf("case changes the result: %q -> (%v,%v,%v), %q -> (%v,%v,%v)", in, tm, dH, dS, v, t2, h2, s2)
		}
	}
	f := 4.0
	if upper == ref.RevComp(upper) {
		f = 1
	}
	denominator := func(ds, oligo float64) float64 { return ds + gasR*math.Log(oligo/f) }
	steps := []struct {
		name          string
		oligo, na, mg float64
	}{
		{"oligo", c.Oligo * c.Factor, c.Na, c.Mg},
		{"sodium", c.Oligo, c.Na * c.Factor, c.Mg},
		{"magnesium", c.Oligo, c.Na, c.Mg*c.Factor + 1e-4},
	}
	for _, st := range steps {
		t2, h2, s2 := primers.SantaLucia(in, st.oligo, st.na, st.mg)
		if h2 != dH {
			return vk.Errf("dH of %q changes with %s: %v -> %v", in, st.name, dH, h2)
		}
		// duplex-forming regime: dH < 0 and a negative denominator at both conditions
		if dH < 0 && denominator(dS, c.Oligo) < 0 && denominator(s2, st.oligo) < 0 && !(t2 > tm) {
			return vk.Errf("Tm of %q does not increase with %s: (oligo %g, Na %g, Mg %g) -> %v, (oligo %g, Na %g, Mg %g) -> %v", in, st.name, c.Oligo, c.Na, c.Mg, tm, st.oligo, st.na, st.mg, t2)
		}
	}
	// the same along each axis for steps far below 1 % (relative 1e-8, 1e-7, 1e-6 - one of them per case): a result
	// computed from the concentrations passed in moves with them. Judged where the formula itself moves Tm by more
	// than 1e-10 K, thousands of times the spacing of float64 values at these temperatures.
	tiny := 1 + []float64{1e-8, 1e-7, 1e-6}[c.CaseMask%3]
	both := terminalRule() == 1
	for _, st := range steps[:3] {
		o, na, mg := c.Oligo, c.Na, c.Mg
		switch st.name {
		case "oligo":
			o *= tiny
		case "sodium":
			na *= tiny
		default:
			mg *= tiny
		}
		w1, _, ws1 := reference(upper, c.Oligo, c.Na, c.Mg, both)
		w2, _, ws2 := reference(upper, o, na, mg, both)
		if !(dH < 0 && denominator(ws1, c.Oligo) < 0 && denominator(ws2, o) < 0 && w2-w1 > 1e-10 && math.Abs(w1) < 1000) {
			continue
		}
		t2, _, _ := primers.SantaLucia(in, o, na, mg)
		if !(t2 > tm) {
			return vk.Errf("Tm of %q does not increase with %s under a step of %g relative: (oligo %.17g, Na %.17g, Mg %.17g) -> %.17g, (oligo %.17g, Na %.17g, Mg %.17g) -> %.17g; the formula moves it by %.3g K", in, st.name, tiny-1, c.Oligo, c.Na, c.Mg, tm, o, na, mg, t2, w2-w1)
		}
	}
	// nearest-neighbour additivity through a C/G junction letter (needs no parameter table):
	// dH(l+j+r) = dH(l+j) + dH(j+r) - initiation, for non-self-complementary strings
	if c.Junction != "" {
		l, j, r := c.Left, c.Junction, c.Right
		whole, a, b := l+j+r, l+j, j+r
		_, hw, _ := primers.SantaLucia(whole, c.Oligo, c.Na, c.Mg)
		_, ha, _ := primers.SantaLucia(a, c.Oligo, c.Na, c.Mg)
		_, hb, _ := primers.SantaLucia(b, c.Oligo, c.Na, c.Mg)
		// terminal A/T of the whole and of b coincide (same last letter); a ends in C/G; first letters: whole and a coincide
		// so under either terminal rule only the initiation term and b's 5' end differ
		extra := initH
		alt := initH
		if b0 := b[0]; b0 == 'A' || b0 == 'T' {
			alt += termH
		}
		if !close(hw, ha+hb-extra) && !close(hw, ha+hb-alt) {
			return vk.Errf("additivity: dH(%q) = %v but dH(%q) + dH(%q) - %v = %v", whole, hw, a, b, extra, ha+hb-extra)
		}
	}
	return nil
}

func nonTrivial(c Case) bool { return len(c.Seq.String()) >= 3 }

func labels(c Case) []string {
	s := c.Seq.String()
	l := []string{}
	if s == ref.RevComp(s) {
		l = append(l, "self-complementary")
	}
	if e := s[len(s)-1]; e == 'A' || e == 'T' {
		l = append(l, "3'-terminal A/T")
	}
	switch n := len(s); {
	case n <= 8:
		l = append(l, "len 2-8")
	case n <= 60:
		l = append(l, "len 9-60")
	default:
		l = append(l, "len 61-200")
	}
	return l
}

func sample(c Case) any {
	m := map[string]any{"oligo": applyCase(c.Seq.String(), c.CaseMask), "grid": c.Grid}
	if !c.Grid {
		m["oligo_M"], m["na_M"], m["mg_M"], m["step_factor"] = c.Oligo, c.Na, c.Mg, c.Factor
	}
	return m
}

var subEnum = vk.Register(&vk.Sub[Case]{Name: "enum", Check: check, NonTrivial: nonTrivial, Sample: sample})
var subRandom = vk.Register(&vk.Sub[Case]{Name: "random", Gen: gen, Check: check, NonTrivial: nonTrivial, Labels: labels, Sample: sample})

func TestSub_enum(t *testing.T) {
	maxLen := vk.Pick(6, 8)
	space := fmt.Sprintf("all A/C/G/T oligos of length 2..%d x the 4x4x4 grid oligo {1nM,100nM,10uM,1mM} x Na {1mM,10mM,100mM,1M} x Mg {0,1mM,10mM,100mM}", maxLen)
	vk.RunEnum(t, subEnum, space, true, func(yield func(Case) bool) {
		i := uint64(0)
		vk.EachString("ACGT", 2, maxLen, func(s string) bool {
			i++
			return yield(Case{Seq: vk.SeqSpec{Lit: s}, Grid: true, CaseMask: i * 0x9E3779B97F4A7C15})
		})
	})
}

func logUniform(t *rapid.T, name string, lo, hi float64) float64 {
	return math.Exp(rapid.Float64Range(math.Log(lo), math.Log(hi)).Draw(t, name))
}

func gen(t *rapid.T) Case {
	c := Case{Seq: vk.DrawSeq(t, "oligo", "ACGT", 2, 200), CaseMask: rapid.Uint64().Draw(t, "case_mask")}
	if rapid.IntRange(0, 5).Draw(t, "self_complementary") == 0 {
		h := vk.DrawSeq(t, "half", "ACGT", 1, 100).String()
		c.Seq = vk.SeqSpec{Lit: h + ref.RevComp(h)}
	}
	c.Oligo = logUniform(t, "oligo_M", 1e-9, 1e-3)
	c.Na = logUniform(t, "na_M", 1e-3, 1)
	if rapid.Bool().Draw(t, "with_mg") {
		c.Mg = logUniform(t, "mg_M", 1e-5, 0.1)
	}
	// one condition in eight is a tie: two quantities that enter the formula side by side are exactly equal (the
	// sodium term and the magnesium term of the salt correction, 140 [Mg] = [Na] bit for bit; equal concentrations)
	switch rapid.IntRange(0, 31).Draw(t, "tie") {
	case 0:
		if mg := logUniform(t, "mg_tie_M", 1e-5, 1.0/140); 140*mg >= 1e-3 {
			c.Mg, c.Na = mg, 140*mg
		}
	case 1:
		c.Mg = min(c.Na, 0.1)
		c.Na = c.Mg
	case 2:
		c.Oligo = min(c.Na, 1e-3)
		c.Na = c.Oligo
	case 3:
		c.Na, c.Mg = rapid.SampledFrom([][2]float64{{0.14, 0.001}, {0.07, 0.0005}, {1.4e-3, 1e-5}, {0.28, 0.002}, {0.7, 0.005}, {1, 0.1}, {1e-3, 0}, {0.05, 0}}).Draw(t, "round_pair")[0], 0
		c.Mg = c.Na / 140
		if 140*c.Mg != c.Na { // the nearest magnesium concentration for which the product is the sodium concentration exactly
			for _, m := range []float64{math.Nextafter(c.Mg, 0), math.Nextafter(c.Mg, 1)} {
				if 140*m == c.Na {
					c.Mg = m
				}
			}
		}
	}
	c.Factor = rapid.Float64Range(1.01, 100).Draw(t, "step_factor")
	c.Left = vk.DrawSeq(t, "left", "ACGT", 1, 30).String()
	c.Right = vk.DrawSeq(t, "right", "ACGT", 1, 30).String()
	c.Junction = rapid.SampledFrom([]string{"C", "G"}).Draw(t, "junction")
	for _, s := range []string{c.Left + c.Junction + c.Right, c.Left + c.Junction, c.Junction + c.Right} {
		if s == ref.RevComp(s) {
			c.Junction = "" // the symmetry term would enter; skip the additivity clause for this case
		}
	}
	return c
}

func TestSub_random(t *testing.T) { vk.RunRapid(t, subRandom) }

var subCollisions = vk.Register(&vk.Sub[Case]{Name: "collisions", Check: check, NonTrivial: nonTrivial})

// TestSub_collisions: the two oligos of every checksum-colliding pair (vk.CollidingPairs) one directly after the other.
func TestSub_collisions(t *testing.T) {
	vk.RunEnum(t, subCollisions, "every checksum-colliding pair of 30-mers x both orders", true, func(yield func(Case) bool) {
		for _, pr := range vk.CollidingPairs() {
			for _, o := range [][2]string{{pr.A, pr.B}, {pr.B, pr.A}} {
				if !yield(Case{Seq: vk.SeqSpec{Lit: o[1]}, Prior: o[0], CaseMask: 0x0f0f, Oligo: 250e-9, Na: 0.1, Mg: 0.002, Factor: 2}) {
					return
				}
			}
		}
	})
}

func TestReplay(t *testing.T) { vk.Replay(t) }
