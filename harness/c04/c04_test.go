// C04 — seqhash is invariant under rotation, strand, case and RNA/DNA spelling.
package c04

import (
	"fmt"
	"strings"
	"testing"

	"github.com/TimothyStiles/poly/seqhash"
	"pgregory.net/rapid"
	"verifharness/internal/ref"
	"verifharness/internal/vk"
)

// Case: Seq is over the 15 IUPAC codes in upper case, spelled with T. Offsets are rotation
// offsets (mod length); AllOffsets means every offset. CaseMask drives the case flipping.
type Case struct {
	Seq        vk.SeqSpec `json:"seq"`
	Offsets    []int      `json:"offsets,omitempty"`
	AllOffsets bool       `json:"all_offsets,omitempty"`
	CaseMask   uint64     `json:"case_mask"`
	// Prior names a sibling of the sequence (same length, same ends, changed in the middle) that is
	// hashed first, under every flag pair, with its result discarded: the invariances must hold whatever
	// was hashed before. "" | point | swap | block | first | last
	Prior    string `json:"prior,omitempty"`
	PriorPos int    `json:"prior_pos,omitempty"`
	// Only (for sequences above 20 000 letters, to bound the cost of a case): the flag pairs judged, as
	// bits 1<<(2*circular+doubleStranded), and whether the RNA spelling is judged too. 0 = everything.
	Only    int  `json:"only,omitempty"`
	SkipRNA bool `json:"skip_rna,omitempty"`
}

func (c Case) judged(circ, ds bool) bool {
	bit := 0
	if circ {
		bit += 2
	}
	if ds {
		bit++
	}
	return c.Only == 0 || c.Only&(1<<bit) != 0
}

// sibling derives the prior input from the (upper-case) sequence.
func sibling(s, kind string, pos int) string {
	n := len(s)
	if n < 3 || kind == "" {
		return ""
	}
	b := []byte(s)
	p := ((pos % n) + n) % n
	next := func(c byte) byte {
		const order = "ACGT"
		if i := strings.IndexByte(order, c); i >= 0 {
			return order[(i+1)%4]
		}
		return 'A'
	}
	switch kind {
	case "first":
		b[0] = next(b[0])
	case "last":
		b[n-1] = next(b[n-1])
	case "point":
		b[p] = next(b[p])
	case "swap":
		q := (p + 1) % n
		if b[p] == b[q] {
			b[p] = next(b[p])
		} else {
			b[p], b[q] = b[q], b[p]
		}
	case "block": // the middle third reversed
		lo, hi := n/3, 2*n/3
		for i, j := lo, hi-1; i < j; i, j = i+1, j-1 {
			b[i], b[j] = b[j], b[i]
		}
		if string(b) == s {
			b[n/2] = next(b[n/2])
		}
	}
	return string(b)
}

func toU(s string) string { return strings.ReplaceAll(strings.ReplaceAll(s, "T", "U"), "t", "u") }

// partialU writes the T selected by the mask (by position, repeating every 64 letters) as U.
func partialU(s string, mask uint64) string {
	b := []byte(s)
	for i := range b {
		if (mask>>(uint(i)%64))&1 == 1 {
			switch b[i] {
			case 'T':
				b[i] = 'U'
			case 't':
				b[i] = 'u'
			}
		}
	}
	return string(b)
}

// flipCase lower-cases the letters selected by the mask (repeating every 64 letters, shifted per block).
func flipCase(s string, mask uint64) string {
	b := []byte(s)
	for i := range b {
		if (mask>>(uint(i+i/64)%64))&1 == 1 && b[i] >= 'A' && b[i] <= 'Z' {
			b[i] = b[i] - 'A' + 'a'
		}
	}
	return string(b)
}

func rot(s string, k int) string { return s[k:] + s[:k] }

func offsets(c Case, n int) []int {
	if n == 0 {
		return nil
	}
	if c.AllOffsets {
		o := make([]int, n)
		for i := range o {
			o[i] = i
		}
		return o
	}
	o := []int{0, 1 % n, n / 2, n - 1}
	for _, x := range c.Offsets {
		o = append(o, ((x%n)+n)%n)
	}
	return o
}

func hash(s, typ string, circ, ds bool) (string, error) {
	h, err := seqhash.Hash(s, typ, circ, ds)
	if err != nil {
		return "", vk.Errf("Hash(%q, %s, circular=%v, doubleStranded=%v) rejected an accepted-alphabet input: %v", s, typ, circ, ds, err)
	}
	return h, nil
}

// emptyDeclined: the property speaks of "every sequence the hash function accepts"; it does not say that a sequence
// without any letter has to be one of them.
func emptyDeclined(s, typ string) bool {
	if s != "" {
		return false
	}
	if _, err := seqhash.Hash("", typ, false, false); err != nil {
		vk.Count("empty sequence declined by the library (not judged)", 1)
		return true
	}
	return false
}

func check(c Case) error {
	dna := c.Seq.String() // T spelling, upper case
	if emptyDeclined(dna, "DNA") {
		return nil
	}
	rna := toU(dna)
	n := len(dna)
	rcDNA := ref.RevComp(dna)
	rcRNA := toU(rcDNA)
	if sib := sibling(dna, c.Prior, c.PriorPos); sib != "" {
		for _, circ := range []bool{false, true} {
			for _, ds := range []bool{false, true} {
				if _, err := hash(sib, "DNA", circ, ds); err != nil {
					return err
				}
			}
		}
	}
	for _, circ := range []bool{false, true} {
		for _, ds := range []bool{false, true} {
			if !c.judged(circ, ds) {
				continue
			}
			for _, v := range []struct{ typ, s, rc string }{{"DNA", dna, rcDNA}, {"RNA", rna, rcRNA}} {
				if v.typ == "RNA" && c.SkipRNA {
					continue
				}
				// calls the library has to reject (a letter outside the alphabet after accepted ones) and the steps
				// of building the sequence up come first, results discarded: a call leaves nothing behind
				for _, sp := range vk.Spoil(v.s, "J!"[n%2]) {
					_, _ = seqhash.Hash(sp, v.typ, circ, ds)
				}
				for _, st := range vk.Stems(v.s) {
					_, _ = seqhash.Hash(st, v.typ, circ, ds)
				}
				h0, err := hash(v.s, v.typ, circ, ds)
				if err != nil {
					return err
				}
				// case
				for _, m := range []uint64{c.CaseMask, ^uint64(0)} {
					fl := flipCase(v.s, m)
					h, err := hash(fl, v.typ, circ, ds)
					if err != nil {
						return err
					}
					if h != h0 {
						return vk.Errf("case: Hash(%q) = %s but Hash(%q) = %s (%s circular=%v ds=%v)", v.s, h0, fl, h, v.typ, circ, ds)
					}
				}
				// rotation
				if circ {
					for _, k := range offsets(c, n) {
						r := rot(v.s, k)
						h, err := hash(r, v.typ, circ, ds)
						if err != nil {
							return err
						}
						if h != h0 {
							return vk.Errf("rotation by %d: Hash(%q) = %s but Hash(%q) = %s (%s ds=%v)", k, v.s, h0, r, h, v.typ, ds)
						}
					}
				}
				// strand
				if ds {
					h, err := hash(v.rc, v.typ, circ, ds)
					if err != nil {
						return err
					}
					if h != h0 {
						return vk.Errf("strand: Hash(%q) = %s but Hash(reverse complement %q) = %s (%s circular=%v)", v.s, h0, v.rc, h, v.typ, circ)
					}
					if circ {
						for _, k := range offsets(c, n) {
							r := rot(v.rc, k)
							h, err := hash(r, v.typ, circ, ds)
							if err != nil {
								return err
							}
							if h != h0 {
								return vk.Errf("strand+rotation by %d: Hash(%q) = %s but Hash(%q) = %s (%s)", k, v.s, h0, r, h, v.typ)
							}
						}
					}
				}
			}
			// RNA spelling vs DNA spelling: differ only in the molecule-type letter
			if c.SkipRNA {
				continue
			}
			hd, err := hash(dna, "DNA", circ, ds)
			if err != nil {
				return err
			}
			// ... and two spellings in which only some T are written U (sequences pasted together from DNA and RNA
			// records): if the library takes them as RNA at all, they are the same molecule
			mixed1, mixed2 := partialU(dna, c.CaseMask), partialU(dna, ^c.CaseMask>>1)
			for i, spelled := range []string{rna, flipCase(rna, c.CaseMask), dna, mixed1, flipCase(mixed2, c.CaseMask>>2)} { // poly also takes T under RNA
				hr, err := hash(spelled, "RNA", circ, ds)
				if err != nil && i >= 2 && strings.ContainsAny(dna, "Tt") {
					continue // the property does not say that the DNA spelling has to be taken under type RNA
				}
				if err != nil {
					return err
				}
				if len(hd) != len(hr) || len(hd) < 4 || hd[:3] != hr[:3] || hd[4:] != hr[4:] || hd[3] != 'D' || hr[3] != 'R' {
					return vk.Errf("RNA %q hashes to %s, DNA spelling %q to %s: they must differ only in the type letter (circular=%v ds=%v)", spelled, hr, dna, hd, circ, ds)
				}
			}
		}
	}
	return nil
}

func nonTrivial(c Case) bool {
	s := c.Seq.String()
	if len(s) < 2 {
		return false
	}
	single := strings.Count(s, s[:1]) == len(s)
	return !single || s != ref.RevComp(s)
}

func labels(c Case) []string {
	s := c.Seq.String()
	l := []string{}
	if strings.ContainsAny(s, "RYSWKMBDHVN") {
		l = append(l, "ambiguity-codes")
	}
	if strings.Contains(s, "T") {
		l = append(l, "has-T/U")
	}
	if s == ref.RevComp(s) && len(s) > 0 {
		l = append(l, "self-reverse-complementary")
	}
	if len(s) > 0 && ref.LeastRotation(ref.RevComp(s)) < ref.LeastRotation(s) {
		l = append(l, "rc-has-smaller-least-rotation")
	}
	switch n := len(s); {
	case n <= 9:
		l = append(l, "len<=9")
	case n <= 200:
		l = append(l, "len 10-200")
	case n <= 10000:
		l = append(l, "len 201-1e4")
	default:
		l = append(l, "len>1e4")
	}
	return l
}

func sample(c Case) any {
	return map[string]any{"sequence": c.Seq.String(), "offsets": c.Offsets, "all_offsets": c.AllOffsets, "case_mask": fmt.Sprintf("%#x", c.CaseMask)}
}

var subEnum = vk.Register(&vk.Sub[Case]{Name: "enum", Check: check, NonTrivial: nonTrivial, Sample: sample})
var subHairpins = vk.Register(&vk.Sub[Case]{Name: "hairpins", Check: check, NonTrivial: nonTrivial, Labels: labels, Sample: sample})
var subRandom = vk.Register(&vk.Sub[Case]{Name: "random", Gen: gen, Check: check, NonTrivial: nonTrivial, Labels: labels, Sample: sample})

func gen(t *rapid.T) Case {
	alpha := rapid.SampledFrom([]string{ref.IUPACCodes, "ACGT", "ACGT", "AT", "ACGTN"}).Draw(t, "alphabet")
	c := Case{Seq: vk.DrawSeq(t, "seq", alpha, 0, 100000)}
	// periodic and reverse-complement-symmetric shapes stress the canonical choice
	switch rapid.IntRange(0, 5).Draw(t, "shape") {
	case 0:
		u := c.Seq.String()
		if len(u) > 0 && len(u) <= 48 {
			c.Seq = vk.SeqSpec{Lit: strings.Repeat(u, rapid.IntRange(1, 6).Draw(t, "reps"))}
		}
	case 1:
		u := c.Seq.String()
		if len(u) <= 48 {
			c.Seq = vk.SeqSpec{Lit: u + ref.RevComp(u)}
		}
	case 3: // hairpin: an arm, 1..3 centre letters, the arm's reverse complement
		if u := c.Seq.String(); len(u) <= 48 {
			mid := make([]byte, rapid.IntRange(1, 3).Draw(t, "centre_len"))
			for i := range mid {
				mid[i] = alpha[rapid.IntRange(0, len(alpha)-1).Draw(t, "centre_letter")]
			}
			c.Seq = vk.SeqSpec{Lit: u + string(mid) + ref.RevComp(u)}
		}
	case 2: // low complexity: one letter repeated, with one to three other letters put in
		n := vk.DrawSize(t, "run_len", 3, 3000)
		b := []byte(strings.Repeat(string(alpha[rapid.IntRange(0, len(alpha)-1).Draw(t, "run_letter")]), n))
		for i, k := 0, rapid.IntRange(1, 3).Draw(t, "odd_letters"); i < k; i++ {
			b[rapid.IntRange(0, n-1).Draw(t, "odd_at")] = alpha[rapid.IntRange(0, len(alpha)-1).Draw(t, "odd_letter")]
		}
		c.Seq = vk.SeqSpec{Lit: string(b)}
	}
	n := len(c.Seq.String())
	if rapid.IntRange(0, 2).Draw(t, "with_prior") == 0 && n >= 3 {
		c.Prior = rapid.SampledFrom([]string{"point", "point", "swap", "block", "first", "last"}).Draw(t, "prior")
		// mostly in the middle half, so that both ends stay as they are
		if rapid.IntRange(0, 3).Draw(t, "prior_anywhere") == 0 {
			c.PriorPos = rapid.IntRange(0, n-1).Draw(t, "prior_pos")
		} else {
			c.PriorPos = rapid.IntRange(n/4, 3*n/4).Draw(t, "prior_pos_mid")
		}
	}
	if n <= 64 {
		c.AllOffsets = true
	} else {
		k := 8
		if n > 5000 {
			k = 3 // long sequences: fewer offsets per case, the case count carries the coverage
		}
		c.Offsets = rapid.SliceOfN(rapid.IntRange(0, 1<<30), k, k).Draw(t, "offsets")
	}
	c.CaseMask = rapid.Uint64().Draw(t, "case_mask")
	if n > 20000 {
		c.Only = 1<<3 | 1<<rapid.IntRange(0, 2).Draw(t, "second_flag_pair") // circular double-stranded and one more
		c.SkipRNA = rapid.Bool().Draw(t, "skip_rna")
	}
	return c
}

func TestSub_random(t *testing.T) { vk.RunRapid(t, subRandom) }

// TestSub_hairpins: arm + centre + reverse complement of the arm, for every arm length 0..300 and centres
// that are empty, one letter (self-complementary or not) or two letters: sequences that differ from their
// reverse complement in the middle only, at every length - the inputs on which a strand comparison that
// looks at the ends first has to get the middle right.
func TestSub_hairpins(t *testing.T) {
	base := vk.Fill(vk.Seed(), 300, "ACGT")
	vk.RunEnum(t, subHairpins, "arm + centre + rc(arm), arm length 0..300, centres {empty, A, C, G, T, S, W, N, AC, GG}", true, func(yield func(Case) bool) {
		for n := 0; n <= len(base); n++ {
			arm := base[:n]
			for _, centre := range []string{"", "A", "C", "G", "T", "S", "W", "N", "AC", "GG"} {
				s := arm + centre + ref.RevComp(arm)
				c := Case{Seq: vk.SeqSpec{Lit: s}, CaseMask: 0x5a5a5a5a5a5a5a5a, Offsets: []int{n, n + 1}}
				if len(s) <= 24 {
					c.AllOffsets = true
				}
				if !yield(c) {
					return
				}
			}
		}
	})
}

func TestSub_enum(t *testing.T) {
	acgtMax := vk.Pick(7, 9)
	iupacMax := vk.Pick(3, 4)
	space := fmt.Sprintf("all ACGT strings of length 0..%d and all strings over the 15 IUPAC codes of length 0..%d, every rotation offset, all four (circular, double-stranded) combinations, DNA and RNA spelling", acgtMax, iupacMax)
	vk.RunEnum(t, subEnum, space, true, func(yield func(Case) bool) {
		i := uint64(0)
		each := func(s string) bool {
			i++
			return yield(Case{Seq: vk.SeqSpec{Lit: s}, AllOffsets: true, CaseMask: i * 0x9E3779B97F4A7C15})
		}
		if !vk.EachString("ACGT", 0, acgtMax, each) {
			return
		}
		vk.EachString(ref.IUPACCodes, 1, iupacMax, func(s string) bool {
			if strings.Trim(s, "ACGT") == "" {
				return true // already covered
			}
			return each(s)
		})
	})
}

// ---------------------------------------------------------------------------------------
// proteins: the rotation and case clauses hold "for every sequence the hash function accepts",
// which includes (single-stranded) proteins

type ProteinCase struct {
	Seq      vk.SeqSpec `json:"seq"`
	CaseMask uint64     `json:"case_mask"`
	Offsets  []int      `json:"offsets,omitempty"`
}

const proteinAlphabet = "ACDEFGHIKLMNPQRSTVWYUO*BXZ"

func checkProtein(c ProteinCase) error {
	s := c.Seq.String()
	if emptyDeclined(s, "PROTEIN") {
		return nil
	}
	for _, circ := range []bool{false, true} {
		h0, err := hash(s, "PROTEIN", circ, false)
		if err != nil {
			return err
		}
		for _, m := range []uint64{c.CaseMask, ^uint64(0)} {
			h, err := hash(flipCase(s, m), "PROTEIN", circ, false)
			if err != nil {
				return err
			}
			if h != h0 {
				return vk.Errf("case: Hash(%q) = %s but Hash(%q) = %s (PROTEIN circular=%v)", s, h0, flipCase(s, m), h, circ)
			}
		}
		if circ && len(s) > 0 {
			offs := c.Offsets
			if len(s) <= 200 {
				offs = nil
				for k := 0; k < len(s); k++ {
					offs = append(offs, k)
				}
			}
			for _, x := range offs {
				k := ((x % len(s)) + len(s)) % len(s)
				h, err := hash(rot(s, k), "PROTEIN", true, false)
				if err != nil {
					return err
				}
				if h != h0 {
					return vk.Errf("rotation by %d: Hash(%q) = %s but Hash(%q) = %s (circular PROTEIN)", k, s, h0, rot(s, k), h)
				}
			}
		}
	}
	return nil
}

var subProtein = vk.Register(&vk.Sub[ProteinCase]{Name: "protein", Check: checkProtein,
	Gen: func(t *rapid.T) ProteinCase {
		c := ProteinCase{Seq: vk.DrawSeq(t, "protein", proteinAlphabet, 0, 5000), CaseMask: rapid.Uint64().Draw(t, "case_mask")}
		if u := c.Seq.String(); len(u) > 0 && len(u) <= 48 && rapid.IntRange(0, 3).Draw(t, "periodic") == 0 {
			c.Seq = vk.SeqSpec{Lit: strings.Repeat(u, rapid.IntRange(2, 5).Draw(t, "reps"))}
		}
		c.Offsets = rapid.SliceOfN(rapid.IntRange(0, 1<<30), 6, 6).Draw(t, "offsets")
		return c
	},
	NonTrivial: func(c ProteinCase) bool {
		s := c.Seq.String()
		return len(s) >= 2 && strings.Count(s, s[:1]) != len(s)
	}})

func TestSub_protein(t *testing.T) { vk.RunRapid(t, subProtein) }

func TestReplay(t *testing.T) { vk.Replay(t) }
