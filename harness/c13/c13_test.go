// C13 — FASTA records survive write/read, re-wrapping and streaming unchanged.
package c13

import (
	"bytes"
	"compress/gzip"
	"fmt"
	"io"
	"os"
	"path/filepath"
	"runtime"
	"strings"
	"testing"
	"time"

	"github.com/TimothyStiles/poly/io/fasta"
	"pgregory.net/rapid"
	"verifharness/internal/vk"
)

type Rec struct {
	Name string     `json:"name"`
	Seq  vk.SeqSpec `json:"seq"`
}

type Layout struct {
	Wrap         int  `json:"wrap"`          // 0 = the whole sequence on one line
	BlankEvery   int  `json:"blank_every"`   // 0 = never; k = a blank line before every k-th line
	CommentEvery int  `json:"comment_every"` // 0 = never; k = a ';' comment line before every k-th line
	CRLF         bool `json:"crlf"`
	FinalNewline bool `json:"final_newline"`
	// CommentLen: 0 = the short standard comment; otherwise the first three comment lines have this many bytes (a line of any kind
	// may be of any length: what a reader does with a long line must not depend on whether it holds sequence)
	CommentLen int `json:"comment_len,omitempty"`
}

type Case struct {
	Kind    string `json:"kind"` // roundtrip | stream
	Records []Rec  `json:"records"`
	Layout  Layout `json:"layout"`
	// stream
	Capacity int    `json:"capacity,omitempty"`
	Yields   []int  `json:"yields,omitempty"` // scheduler yields before the i-th receive (cyclic)
	Procs    int    `json:"gomaxprocs,omitempty"`
	Via      string `json:"via,omitempty"` // parse | file | gzfile
	// StallMs: the consumer does nothing for this long before taking the second record ("whatever the consumer's speed")
	StallMs int `json:"stall_ms,omitempty"`
}

func records(c Case) []fasta.Fasta {
	out := make([]fasta.Fasta, len(c.Records))
	for i, r := range c.Records {
		out[i] = fasta.Fasta{Name: r.Name, Sequence: r.Seq.String()}
	}
	return out
}

// layout is the harness's own FASTA writer.
func layout(recs []fasta.Fasta, l Layout) []byte {
	eol := "\n"
	if l.CRLF {
		eol = "\r\n"
	}
	var b bytes.Buffer
	line, longComments := 0, 0
	emit := func(s string) {
		line++
		if l.BlankEvery > 0 && line%l.BlankEvery == 0 {
			b.WriteString(eol)
		}
		if l.CommentEvery > 0 && line%l.CommentEvery == 0 {
			if longComments++; longComments > 3 {
				b.WriteString(commentLine(0) + eol) // the first three comment lines have the drawn length, the rest the standard one
			} else {
				b.WriteString(commentLine(l.CommentLen) + eol)
			}
		}
		b.WriteString(s)
		b.WriteString(eol)
	}
	for _, r := range recs {
		emit(">" + r.Name)
		s := r.Sequence
		if l.Wrap <= 0 {
			if len(s) > 0 {
				emit(s)
			}
			continue
		}
		for len(s) > 0 {
			n := min(l.Wrap, len(s))
			emit(s[:n])
			s = s[n:]
		}
	}
	out := b.Bytes()
	if !l.FinalNewline {
		out = bytes.TrimSuffix(out, []byte(eol))
	}
	return out
}

func commentLine(n int) string {
	const text = "; comment >not a header "
	if n <= 0 {
		return strings.TrimRight(text, " ")
	}
	return (strings.Repeat(text+"ACGT\tacgt ", n/len(text)+1))[:n]
}

func same(what string, got, want []fasta.Fasta) error {
	if len(got) != len(want) {
		return vk.Errf("%s: %d records parsed, %d written", what, len(got), len(want))
	}
	for i := range want {
		if got[i].Name != want[i].Name {
			return vk.Errf("%s: record %d has name %q, written %q", what, i, got[i].Name, want[i].Name)
		}
		if got[i].Sequence != want[i].Sequence {
			g, w := got[i].Sequence, want[i].Sequence
			k := 0
			for k < len(g) && k < len(w) && g[k] == w[k] {
				k++
			}
			return vk.Errf("%s: record %d (%q): sequence of %d letters read back as %d letters (first difference at %d)", what, i, want[i].Name, len(w), len(g), k)
		}
	}
	return nil
}

func gz(b []byte) []byte { return vk.Gzip(b) }

func clip(s string) string {
	if len(s) > 300 {
		return s[:300] + "…"
	}
	return s
}

// bounded runs f under a deadline: a parser that never closes its channel blocks Parse forever.
func bounded(what string, f func() []fasta.Fasta) ([]fasta.Fasta, error) {
	var out []fasta.Fasta
	done, err := vk.WithDeadline(60*time.Second, func() { out = f() })
	if err != nil {
		return nil, vk.Errf("%s: %v", what, err)
	}
	if !done {
		return nil, vk.Errf("%s did not return within 60 s (the record channel is never closed?)", what)
	}
	return out, nil
}

func checkRoundtrip(c Case) error {
	want := records(c)
	text := fasta.Build(want)
	if err := same("the records after Build (the writer must not change its argument)", want, records(c)); err != nil {
		return err
	}
	// the text handed back must stay what it is when other records are written before it is read
	snapshot := string(text)
	_ = fasta.Build([]fasta.Fasta{{Name: "another record", Sequence: strings.Repeat("tgca", len(snapshot)/16)}})
	_ = fasta.Build([]fasta.Fasta{{Name: "x", Sequence: "a"}})
	if string(text) != snapshot {
		return vk.Errf("the bytes returned by Build(x) changed when other records were built afterwards: %q, was %q", string(text), snapshot)
	}
	// the text as any other FASTA tool reads it ('>' header lines, sequence lines joined)
	if ref, ok := referenceParse(text); !ok {
		return vk.Errf("Build(x) is not FASTA text to the harness's reference reader: %q", clip(string(text)))
	} else if err := same("Build(x) read by the harness's reference FASTA reader", ref, want); err != nil {
		return err
	}
	got, err := bounded("Parse(Build(x))", func() []fasta.Fasta { return fasta.Parse(bytes.NewReader(text)) })
	if err != nil {
		return err
	}
	if err := same("Parse(Build(x))", got, want); err != nil {
		return err
	}
	if total := len(text); total <= 1<<20 { // kept by the caller while other files are parsed (vk.Hold)
		held, expect := got, records(c)
		vk.Hold("the records fasta.Parse returned", func() error { return same("records parsed earlier", held, expect) })
	}
	// a reader the caller has already read from (a line of its own in front of the records): parsing starts where the
	// reader stands
	ownLine := "#records follow; this line is the caller's own\n"
	at := bytes.NewReader(append([]byte(ownLine), text...))
	if _, err := at.Seek(int64(len(ownLine)), io.SeekStart); err != nil {
		return vk.Harnessf("seek: %v", err)
	}
	if got, err = bounded("Parse(reader positioned behind a line the caller read)", func() []fasta.Fasta { return fasta.Parse(at) }); err != nil {
		return err
	}
	if err := same("Parse(reader positioned behind a line the caller read)", got, want); err != nil {
		return err
	}
	dir := vk.WorkDir()
	p := filepath.Join(dir, "x.fasta")
	defer os.Remove(p)
	vk.StaleFile(p, 2*len(text)+500)
	vk.AlternateTempDir(func() { fasta.Write(want, p) })
	if got, err = bounded("Read(Write(x))", func() []fasta.Fasta { return fasta.Read(p) }); err != nil {
		return err
	}
	if err := same("Read(Write(x))", got, want); err != nil {
		return err
	}
	onDisk, err := os.ReadFile(p)
	if err != nil {
		return vk.Harnessf("read back %s: %v", p, err)
	}
	pz := filepath.Join(dir, "x.fasta.gz")
	defer os.Remove(pz)
	if err := os.WriteFile(pz, gz(onDisk), 0o644); err != nil {
		return vk.Harnessf("write %s: %v", pz, err)
	}
	if got, err = bounded("ReadGz(gzip(Write(x)))", func() []fasta.Fasta { return fasta.ReadGz(pz) }); err != nil {
		return err
	}
	if err := same("ReadGz(gzip(Write(x)))", got, want); err != nil {
		return err
	}
	// the same records laid out by the harness's own writer
	own := layout(want, c.Layout)
	if got, err = bounded("Parse(own layout)", func() []fasta.Fasta { return fasta.Parse(bytes.NewReader(own)) }); err != nil {
		return err
	}
	if err := same(fmt.Sprintf("Parse(own layout %+v)", c.Layout), got, want); err != nil {
		return err
	}
	return nil
}

func checkStream(c Case) error {
	want := records(c)
	text := layout(want, c.Layout)
	old := runtime.GOMAXPROCS(max(1, c.Procs))
	defer runtime.GOMAXPROCS(old)
	ch := make(chan fasta.Fasta, c.Capacity)
	parserDone := make(chan error, 1)
	dir := vk.WorkDir()
	switch c.Via {
	case "file", "gzfile":
		p := filepath.Join(dir, "s.fasta")
		data := text
		if c.Via == "gzfile" {
			p += ".gz"
			data = gz(text)
		}
		if err := os.WriteFile(p, data, 0o644); err != nil {
			return vk.Harnessf("write %s: %v", p, err)
		}
		defer os.Remove(p)
		if c.Via == "file" {
			fasta.ReadConcurrent(p, ch)
		} else {
			fasta.ReadGzConcurrent(p, ch)
		}
		parserDone <- nil // the parser goroutine is poly's own; its end is observed through the channel only
	default:
		go func() {
			defer func() {
				if r := recover(); r != nil {
					parserDone <- fmt.Errorf("ParseConcurrent panicked: %v", r)
					return
				}
				parserDone <- nil
			}()
			fasta.ParseConcurrent(bytes.NewReader(text), ch)
		}()
	}
	var got []fasta.Fasta
	deadline, releaseDeadline := vk.AfterStop(60*time.Second + time.Duration(c.StallMs)*time.Millisecond)
	defer releaseDeadline()
	for i := 0; ; i++ {
		if i == 1 && c.StallMs > 0 {
			time.Sleep(time.Duration(c.StallMs) * time.Millisecond)
		}
		if len(c.Yields) > 0 {
			for y := 0; y < c.Yields[i%len(c.Yields)]; y++ {
				runtime.Gosched()
			}
		}
		select {
		case r, ok := <-ch:
			if !ok {
				goto closed
			}
			got = append(got, r)
			if len(got) > len(want)+5 {
				return vk.Errf("stream delivered more than %d records for %d written", len(got), len(want))
			}
		case err := <-parserDone:
			if err != nil {
				return err
			}
			parserDone = nil // keep draining
		case <-deadline:
			return vk.Errf("stream (capacity %d, via %s): channel neither delivered nor closed within 60 s after %d of %d records", c.Capacity, c.Via, len(got), len(want))
		}
	}
closed:
	if err := same(fmt.Sprintf("stream (capacity %d, via %s, layout %+v)", c.Capacity, c.Via, c.Layout), got, want); err != nil {
		return err
	}
	if parserDone != nil {
		limit, release := vk.AfterStop(30 * time.Second)
		defer release()
		select {
		case err := <-parserDone:
			if err != nil {
				return err
			}
		case <-limit:
			return vk.Errf("ParseConcurrent closed its channel but did not return within 30 s")
		}
	}
	// closed exactly once: a second close or a late send would have panicked inside the parser
	// goroutine (reported above for ParseConcurrent; it kills the process for poly's own goroutines)
	if _, ok := <-ch; ok {
		return vk.Errf("channel delivered a value after reporting closed")
	}
	return nil
}

func check(c Case) error {
	if c.Kind == "stream" {
		return checkStream(c)
	}
	if c.Kind == "lines" {
		return checkLines(c)
	}
	return checkRoundtrip(c)
}

// checkLines: the harness's own layout, read by Parse, by the streaming parser and by Parse through a gzip reader; nothing else (the
// line-length sweep evaluates hundreds of long inputs).
func checkLines(c Case) error {
	want := records(c)
	text := layout(want, c.Layout)
	what := fmt.Sprintf("Parse(own layout %+v, longest line %d)", c.Layout, longestLine(c))
	got, err := bounded(what, func() []fasta.Fasta { return fasta.Parse(bytes.NewReader(text)) })
	if err != nil {
		return err
	}
	if err := same(what, got, want); err != nil {
		return err
	}
	what = "ParseConcurrent on the same text"
	got, err = bounded(what, func() []fasta.Fasta {
		ch := make(chan fasta.Fasta, 1)
		go fasta.ParseConcurrent(bytes.NewReader(text), ch)
		var out []fasta.Fasta
		for f := range ch {
			out = append(out, f)
		}
		return out
	})
	if err != nil {
		return err
	}
	if err := same(what, got, want); err != nil {
		return err
	}
	// the same text through a decompressing reader: it hands out its bytes in other portions than a reader over
	// memory does, and its last portion together with the end of the stream
	what = fmt.Sprintf("Parse(gzip reader over own layout %+v, longest line %d)", c.Layout, longestLine(c))
	zr, zerr := gzip.NewReader(bytes.NewReader(gz(text)))
	if zerr != nil {
		return vk.Harnessf("gzip.NewReader on the harness's own gzip: %v", zerr)
	}
	got, err = bounded(what, func() []fasta.Fasta { return fasta.Parse(zr) })
	if err != nil {
		return err
	}
	return same(what, got, want)
}

func longestLine(c Case) int {
	m := 0
	for _, r := range c.Records {
		n := len(r.Seq.String())
		if c.Layout.Wrap > 0 {
			n = min(n, c.Layout.Wrap)
		}
		m = max(m, n, len(r.Name)+1)
	}
	return m
}

func longestBuildLine(c Case) int {
	m := 0
	for _, r := range c.Records {
		m = max(m, len(r.Seq.String()))
	}
	return m
}

func nonTrivial(c Case) bool {
	for _, r := range c.Records {
		if c.Layout.Wrap > 0 && len(r.Seq.String()) > c.Layout.Wrap {
			return true
		}
	}
	if longestBuildLine(c) > 65536 {
		return true
	}
	return c.Kind == "stream" && c.Capacity < len(c.Records) && (len(c.Yields) > 0 || c.StallMs > 0)
}

func labels(c Case) []string {
	l := []string{"kind:" + c.Kind}
	if longestBuildLine(c) > 65536 {
		l = append(l, "Build line > 64 KiB")
	}
	if longestLine(c) > 65536 {
		l = append(l, "own-layout line > 64 KiB")
	}
	if c.Layout.CRLF {
		l = append(l, "CRLF")
	}
	if c.Layout.BlankEvery > 0 {
		l = append(l, "blank lines")
	}
	if c.Layout.CommentEvery > 0 {
		l = append(l, "comment lines")
		if c.Layout.CommentLen > 4096 {
			l = append(l, "comment lines beyond 4 KiB")
		}
	}
	if !c.Layout.FinalNewline {
		l = append(l, "no final newline")
	}
	empty := false
	for _, r := range c.Records {
		if r.Seq.String() == "" {
			empty = true
		}
	}
	if empty {
		l = append(l, "has empty sequence")
	}
	if c.Kind == "stream" {
		l = append(l, "via:"+c.Via)
		if c.Capacity == 0 {
			l = append(l, "unbuffered")
		}
		if c.Capacity < len(c.Records) {
			l = append(l, "capacity < records")
		}
	}
	switch n := len(c.Records); {
	case n == 1:
		l = append(l, "records:1")
	case n <= 10:
		l = append(l, "records:2-10")
	default:
		l = append(l, "records:>10")
	}
	return l
}

func sample(c Case) any {
	var rs []string
	for _, r := range c.Records {
		s := r.Seq.String()
		if len(s) > 30 {
			s = fmt.Sprintf("%s…(%d)", s[:30], len(s))
		}
		name := r.Name
		if len(name) > 80 {
			name = fmt.Sprintf("%s…(%d bytes)", name[:60], len(name))
		}
		rs = append(rs, fmt.Sprintf(">%s | %s", name, s))
	}
	m := map[string]any{"kind": c.Kind, "records": rs, "layout": c.Layout}
	if c.Kind == "stream" {
		m["capacity"], m["yields"], m["via"], m["gomaxprocs"] = c.Capacity, c.Yields, c.Via, c.Procs
	}
	return m
}

var nameGen = rapid.OneOf(
	rapid.StringMatching(`[ -~]{0,40}`),
	rapid.StringMatching(`[A-Za-z0-9_|.:]{1,20}( [ -~]{0,30})?`),
	rapid.StringMatching(`[>;#]{1,3}[ -~]{0,10}`),
	rapid.StringOfN(rapid.RuneFrom(nil, unicodePrintable...), 0, 20, -1),
)

func drawRecords(t *rapid.T, maxRecords, maxLen int) []Rec {
	n := 1
	switch rapid.IntRange(0, 9).Draw(t, "records_class") {
	case 0:
		n = rapid.IntRange(11, maxRecords).Draw(t, "n_records_many")
	case 1, 2, 3:
		n = 1
	default:
		n = rapid.IntRange(2, 10).Draw(t, "n_records")
	}
	recs := make([]Rec, n)
	for i := range recs {
		name := nameGen.Draw(t, "name")
		if n <= 3 && rapid.IntRange(0, 39).Draw(t, "long_name") == 0 { // a header line beyond any fixed line buffer
			name = strings.Repeat(name+" sp|P12345|LONG_DESCRIPTION ", 70000/(len(name)+28)+1)
		}
		name = strings.TrimRight(name, "\r") // a trailing CR cannot survive CRLF handling by design
		alpha := rapid.SampledFrom([]string{"ACGT", "ACGTNacgtn", "ACDEFGHIKLMNPQRSTVWY*", "ACGT-"}).Draw(t, "alphabet")
		var seq vk.SeqSpec
		switch cls := rapid.IntRange(0, 49).Draw(t, "seq_class"); {
		case cls == 0 && n <= 10:
			seq = vk.SeqSpec{Fill: rapid.Uint64().Draw(t, "seq_fill"), N: rapid.IntRange(65530, maxLen).Draw(t, "seq_len_huge"), Alpha: alpha}
		case cls <= 3:
			seq = vk.SeqSpec{}
		default:
			seq = vk.DrawSeq(t, "seq", alpha, 0, 3000)
		}
		recs[i] = Rec{Name: name, Seq: seq}
	}
	return recs
}

func drawLayout(t *rapid.T) Layout {
	l := Layout{CRLF: rapid.Bool().Draw(t, "crlf"), FinalNewline: rapid.Bool().Draw(t, "final_newline")}
	switch rapid.IntRange(0, 5).Draw(t, "wrap_class") {
	case 0:
		l.Wrap = 0
	case 1:
		l.Wrap = rapid.IntRange(1, 5).Draw(t, "wrap_tiny")
	case 2:
		l.Wrap = rapid.SampledFrom([]int{60, 70, 80}).Draw(t, "wrap_usual")
	default:
		l.Wrap = rapid.IntRange(1, 1000).Draw(t, "wrap")
	}
	if rapid.Bool().Draw(t, "blank_lines") {
		l.BlankEvery = rapid.IntRange(1, 7).Draw(t, "blank_every")
	}
	if rapid.Bool().Draw(t, "comment_lines") {
		l.CommentEvery = rapid.IntRange(1, 7).Draw(t, "comment_every")
		if rapid.IntRange(0, 5).Draw(t, "long_comments") == 0 {
			l.CommentEvery = max(l.CommentEvery, 3)
			l.CommentLen = rapid.SampledFrom([]int{1, 2, 4095, 4096, 4097, 5000, 65535, 65536, 65537, 70000, 140000}).Draw(t, "comment_len")
		}
	}
	return l
}

func genRoundtrip(t *rapid.T) Case {
	return Case{Kind: "roundtrip", Records: drawRecords(t, 200, vk.Pick(140000, 300000)), Layout: drawLayout(t)}
}

func genStream(t *rapid.T) Case {
	c := Case{Kind: "stream", Records: drawRecords(t, 200, vk.Pick(100000, 300000)), Layout: drawLayout(t)}
	c.Capacity = rapid.SampledFrom([]int{0, 0, 1, 2, 10, 100, 1000}).Draw(t, "capacity")
	if rapid.IntRange(0, 3).Draw(t, "capacity_random") == 0 {
		c.Capacity = rapid.IntRange(0, 1000).Draw(t, "capacity_value")
	}
	c.Yields = rapid.SliceOfN(rapid.IntRange(0, 20), 0, 5).Draw(t, "yields")
	c.Procs = rapid.SampledFrom([]int{1, 2, 16}).Draw(t, "gomaxprocs")
	c.Via = rapid.SampledFrom([]string{"parse", "parse", "file", "gzfile"}).Draw(t, "via")
	return c
}

var subRoundtrip = vk.Register(&vk.Sub[Case]{Name: "roundtrip", Gen: genRoundtrip, Check: check, NonTrivial: nonTrivial, Labels: labels, Sample: sample, PreRecord: true})
var subStream = vk.Register(&vk.Sub[Case]{Name: "stream", Gen: genStream, Check: check, NonTrivial: nonTrivial, Labels: labels, Sample: sample, PreRecord: true})

var subStalls = vk.Register(&vk.Sub[Case]{Name: "stalls", Check: check, NonTrivial: nonTrivial, Labels: labels, Sample: sample})

// TestSub_stalls: a consumer that takes the first record and then does nothing for a while - longer than the round
// numbers a well-meant timeout would use - before it goes on: every record still arrives, in order, and the channel is
// closed. One case per process, so the sub-check takes as long as its longest stall.
func TestSub_stalls(t *testing.T) {
	stalls := []int{1200}
	if vk.Thorough() {
		stalls = []int{1200, 2500, 5500, 11000, 16000, 31000, 61000}
	}
	vk.RunManual(t, subStalls, "a consumer stalling for 1.2 s (quick) / 1.2 .. 61 s (thorough) after the first record, channel capacities 0 and 1, through ParseConcurrent and ReadConcurrent", true, func(m *vk.Manual[Case]) {
		unit := 0
		for _, ms := range stalls {
			for _, capacity := range []int{0, 1} {
				for _, via := range []string{"parse", "file"} {
					unit++
					if !vk.Mine(unit) {
						continue
					}
					c := Case{Kind: "stream", Capacity: capacity, Via: via, StallMs: ms, Procs: 2, Layout: Layout{Wrap: 60, FinalNewline: true},
						Records: []Rec{{Name: "first", Seq: vk.SeqSpec{Lit: "ACGTACGT"}}, {Name: "second", Seq: vk.SeqSpec{Lit: "GGGGCCCC"}}, {Name: "third", Seq: vk.SeqSpec{Lit: "TTTT"}}, {Name: "fourth", Seq: vk.SeqSpec{Lit: "A"}}}}
					if !m.Eval(c) {
						return
					}
				}
			}
		}
	})
}

var subLines = vk.Register(&vk.Sub[Case]{Name: "lines", Check: check, NonTrivial: nonTrivial, Labels: labels, Sample: sample})

// TestSub_lines puts a line of every edge length (vk.EdgeSizes of 1..300000: powers of two, multiples of
// 1024 / 4096 / 65536 and of line widths, each +-1) into a file - as an unwrapped sequence, as the first
// line of a wrapped sequence, and (to 70 000) as a header line - with LF and with CRLF line ends, followed
// by a second record, and reads it with both parsers.
func TestSub_lines(t *testing.T) {
	base := vk.Fill(vk.Seed(), 300100, "ACGTNacgtn")
	name := vk.Fill(vk.Seed()+1, 70000, "abcdefgh ij|_.0123456789")
	vk.RunEnum(t, subLines, "a line of every edge length 1..300000 x {unwrapped sequence, first line of a wrapped sequence, header} x {LF, CRLF}", true, func(yield func(Case) bool) {
		for _, L := range vk.EdgeSizes(1, 300000) {
			for _, crlf := range []bool{false, true} {
				tail := Rec{Name: "next record", Seq: vk.SeqSpec{Lit: "ACGT"}}
				cases := []Case{
					{Kind: "lines", Records: []Rec{{Name: "a", Seq: vk.SeqSpec{Lit: base[:L]}}, tail}, Layout: Layout{CRLF: crlf, FinalNewline: true}},
					{Kind: "lines", Records: []Rec{{Name: "a", Seq: vk.SeqSpec{Lit: base[:L+17]}}, tail}, Layout: Layout{Wrap: L, CRLF: crlf, FinalNewline: L%2 == 0}},
				}
				if L >= 2 && L <= len(name) {
					cases = append(cases, Case{Kind: "lines", Records: []Rec{{Name: name[:L-1], Seq: vk.SeqSpec{Lit: "ACGTACGT"}}, tail}, Layout: Layout{Wrap: 60, CRLF: crlf, FinalNewline: true}})
				}
				for _, c := range cases {
					if !yield(c) {
						return
					}
				}
			}
		}
	})
}

func TestSub_roundtrip(t *testing.T) { vk.RunRapid(t, subRoundtrip) }
func TestSub_stream(t *testing.T)    { vk.RunRapid(t, subStream) }

func TestReplay(t *testing.T) { vk.Replay(t) }

// ---------------------------------------------------------------------------------------
// native coverage-guided fuzzing (thorough tier)

var subRoundtripFuzz = vk.Register(&vk.Sub[Case]{Name: "roundtrip_fuzz", Gen: genRoundtrip, Check: check})

func FuzzSub_roundtrip_fuzz(f *testing.F) { vk.RunFuzz(f, subRoundtripFuzz) }

// byte-level target: arbitrary bytes are parsed by poly and by the harness's reference FASTA
// reader (differential oracle). Inputs without a header before the first sequence line are
// outside the format and are discarded.
type BytesCase struct {
	Data []byte `json:"data"`
}

func referenceParse(data []byte) ([]fasta.Fasta, bool) {
	var recs []fasta.Fasta
	var seq strings.Builder
	flush := func() {
		if len(recs) > 0 {
			recs[len(recs)-1].Sequence = seq.String()
			seq.Reset()
		}
	}
	for _, line := range strings.Split(string(data), "\n") {
		line = strings.TrimSuffix(line, "\r")
		switch {
		case line == "" || line[0] == ';':
		case line[0] == '>':
			flush()
			recs = append(recs, fasta.Fasta{Name: line[1:]})
		default:
			if len(recs) == 0 {
				return nil, false
			}
			seq.WriteString(line)
		}
	}
	flush()
	return recs, len(recs) > 0
}

func checkBytes(c BytesCase) error {
	want, ok := referenceParse(c.Data)
	if !ok {
		return nil
	}
	got, err := bounded("Parse(bytes)", func() []fasta.Fasta { return fasta.Parse(bytes.NewReader(c.Data)) })
	if err != nil {
		return err
	}
	return same(fmt.Sprintf("Parse of %d fuzzed bytes", len(c.Data)), got, want)
}

var subBytes = vk.Register(&vk.Sub[BytesCase]{Name: "bytes_fuzz", Check: checkBytes})

func FuzzSub_bytes_fuzz(f *testing.F) {
	if b, err := os.ReadFile(vk.RepoPath("io/fasta/data/base.fasta")); err == nil {
		f.Add(b)
	}
	f.Add([]byte(">a\nACGT\n>b\n\nAC\nGT\n"))
	f.Add([]byte("; comment\r\n>x y z\r\nAC\r\n;c\r\nGT"))
	f.Fuzz(func(t *testing.T, data []byte) {
		c := BytesCase{Data: data}
		if err := vk.SafeCheck(subBytes, c); err != nil {
			vk.FailFuzz(t, subBytes, c, err)
		}
	})
}

// ---------------------------------------------------------------------------------------
// corpus: the repository's FASTA files, read by poly and by the reference FASTA reader.

type CorpusCase struct {
	File string `json:"file"`
	Gz   bool   `json:"gz"`
}

func checkCorpus(c CorpusCase) error {
	path := vk.RepoPath(c.File)
	b, err := os.ReadFile(path)
	if err != nil {
		return vk.Harnessf("%v", err)
	}
	var got []fasta.Fasta
	if c.Gz {
		zr, err := gzip.NewReader(bytes.NewReader(b))
		if err != nil {
			return vk.Harnessf("%v", err)
		}
		var buf bytes.Buffer
		if _, err := buf.ReadFrom(zr); err != nil {
			return vk.Harnessf("%v", err)
		}
		b = buf.Bytes()
		if got, err = bounded("ReadGz", func() []fasta.Fasta { return fasta.ReadGz(path) }); err != nil {
			return err
		}
	} else if got, err = bounded("Read", func() []fasta.Fasta { return fasta.Read(path) }); err != nil {
		return err
	}
	want, ok := referenceParse(b)
	if !ok {
		return vk.Harnessf("reference reader rejects %s", c.File)
	}
	return same("Read("+c.File+") vs reference reader", got, want)
}

var subCorpus = vk.Register(&vk.Sub[CorpusCase]{Name: "corpus", Check: checkCorpus, NonTrivial: func(CorpusCase) bool { return true }})

func TestSub_corpus(t *testing.T) {
	vk.RunEnum(t, subCorpus, "io/fasta/data/base.fasta and uniprot_1mb_test.fasta.gz", true, func(yield func(CorpusCase) bool) {
		if !yield(CorpusCase{File: "io/fasta/data/base.fasta"}) {
			return
		}
		yield(CorpusCase{File: "io/fasta/data/uniprot_1mb_test.fasta.gz", Gz: true})
	})
}
