package c13

import "unicode"

// printable runes for names beyond ASCII: letters, digits, punctuation, symbols, plain space
var unicodePrintable = []*unicode.RangeTable{unicode.L, unicode.N, unicode.P, unicode.S, {R16: []unicode.Range16{{Lo: ' ', Hi: ' ', Stride: 1}}}}
