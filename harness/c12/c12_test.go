// C12 — circular sequences rotate to their lexicographically least rotation.
package c12

import (
	"bytes"
	"fmt"
	"strings"
	"testing"

	"github.com/TimothyStiles/poly/seqhash"
	"pgregory.net/rapid"
	"verifharness/internal/vk"
)

// Case describes a byte string structurally so that replay files stay small even for
// strings of 10^6 characters.
type Case struct {
	Kind   string `json:"kind"`    // literal | power | nearpower | periodic | nearperiodic | fibonacci | thuemorse | fill
	Unit   []byte `json:"unit"`    // literal: the string; power: the repeated unit; fibonacci/thuemorse: two letters
	Reps   int    `json:"reps"`    // power: repetitions; fibonacci/thuemorse: target length; fill: length
	MutPos int    `json:"mut_pos"` // nearpower: position (mod length) overwritten
	MutVal byte   `json:"mut_val"` // nearpower: the byte written there
	Fill   uint64 `json:"fill"`    // fill: filler value
	Alpha  string `json:"alpha"`   // fill: alphabet
	Rots   []int  `json:"rots"`    // rotation offsets (mod length) for the metamorphic clause
	// runs: Runs[i] copies of Unit[0] (the smallest letter), each followed by Gaps[i] filler letters over Alpha
	// (which does not contain Unit[0]); the whole is then rotated by Origin, so that a run can straddle the origin.
	Runs   []int `json:"runs,omitempty"`
	Gaps   []int `json:"gaps,omitempty"`
	Origin int   `json:"origin,omitempty"`
	// Prior: a string canonicalised immediately before the judged calls, its result discarded
	Prior string `json:"prior,omitempty"`
}

func (c Case) Bytes() []byte {
	switch c.Kind {
	case "literal":
		return append([]byte{}, c.Unit...)
	case "power", "nearpower":
		b := bytes.Repeat(c.Unit, c.Reps)
		if c.Kind == "nearpower" && len(b) > 0 {
			b[((c.MutPos%len(b))+len(b))%len(b)] = c.MutVal
		}
		return b
	case "periodic", "nearperiodic": // the unit repeated and cut to Reps letters
		if len(c.Unit) == 0 || c.Reps <= 0 {
			return []byte{}
		}
		b := bytes.Repeat(c.Unit, c.Reps/len(c.Unit)+1)[:c.Reps]
		if c.Kind == "nearperiodic" {
			b[((c.MutPos%len(b))+len(b))%len(b)] = c.MutVal
		}
		return b
	case "fibonacci":
		a, b := []byte{c.Unit[0]}, []byte{c.Unit[0], c.Unit[1]}
		for len(b) < c.Reps {
			a, b = b, append(append([]byte{}, b...), a...)
		}
		return b[:min(len(b), c.Reps)]
	case "thuemorse":
		b := make([]byte, c.Reps)
		for i := range b {
			x, p := i, 0
			for x > 0 {
				p ^= x & 1
				x >>= 1
			}
			b[i] = c.Unit[p]
		}
		return b
	case "fill":
		return []byte(vk.Fill(c.Fill, c.Reps, c.Alpha))
	case "runs":
		var b []byte
		for i, r := range c.Runs {
			b = append(b, bytes.Repeat(c.Unit[:1], r)...)
			if i < len(c.Gaps) && c.Gaps[i] > 0 {
				b = append(b, vk.Fill(c.Fill+uint64(i), c.Gaps[i], c.Alpha)...)
			}
		}
		if n := len(b); n > 0 {
			k := ((c.Origin % n) + n) % n
			b = append(b[k:len(b):len(b)], b[:k]...)
		}
		return b
	}
	return nil
}

// leastRotationBrute tries every rotation.
func leastRotationBrute(s []byte) []byte {
	n := len(s)
	if n == 0 {
		return []byte{}
	}
	d := append(append([]byte{}, s...), s...)
	best := 0
	for k := 1; k < n; k++ {
		if bytes.Compare(d[k:k+n], d[best:best+n]) < 0 {
			best = k
		}
	}
	return d[best : best+n]
}

// leastRotationTwoPointer is the classical i/j/k minimal-representation scan (not Booth).
func leastRotationTwoPointer(s []byte) []byte {
	n := len(s)
	if n == 0 {
		return []byte{}
	}
	i, j, k := 0, 1, 0
	for i < n && j < n && k < n {
		a, b := s[(i+k)%n], s[(j+k)%n]
		if a == b {
			k++
			continue
		}
		if a > b {
			i += k + 1
		} else {
			j += k + 1
		}
		if i == j {
			j++
		}
		k = 0
	}
	st := min(i, j)
	d := append(append([]byte{}, s...), s...)
	return d[st : st+n]
}

func oracle(s []byte) ([]byte, error) {
	if len(s) <= 64 {
		a, b := leastRotationBrute(s), leastRotationTwoPointer(s)
		if !bytes.Equal(a, b) { // self-test of the linear-time reference
			return nil, vk.Harnessf("reference algorithms disagree on %q: %q vs %q", s, a, b)
		}
		return a, nil
	}
	return leastRotationTwoPointer(s), nil
}

func check(c Case) error {
	s := c.Bytes()
	if len(s) <= 20000 {
		for _, sib := range vk.Siblings(string(s)) { // related inputs first, results discarded
			_ = seqhash.RotateSequence(sib)
		}
		for _, st := range vk.Stems(string(s)) { // and the steps of building the input up
			_ = seqhash.RotateSequence(st)
		}
	}
	if c.Prior != "" {
		_ = seqhash.RotateSequence(c.Prior)
	}
	want, err := oracle(s)
	if err != nil {
		return err
	}
	got := seqhash.RotateSequence(string(s))
	if got != string(want) {
		return vk.Errf("RotateSequence(%q) = %q, least rotation is %q", string(s), got, string(want))
	}
	n := len(s)
	for _, r := range c.Rots {
		if n == 0 {
			break
		}
		k := ((r % n) + n) % n
		rot := string(s[k:]) + string(s[:k])
		if g := seqhash.RotateSequence(rot); g != got {
			return vk.Errf("rotation by %d of %q canonicalises to %q, the original to %q", k, string(s), g, got)
		}
	}
	return nil
}

func nonTrivial(c Case) bool {
	s := c.Bytes()
	for i := 1; i < len(s); i++ {
		if s[i] != s[0] {
			return true
		}
	}
	return false
}

func labels(c Case) []string {
	s := c.Bytes()
	l := []string{"kind:" + c.Kind}
	switch n := len(s); {
	case n == 0:
		l = append(l, "len:0")
	case n <= 64:
		l = append(l, "len:1-64")
	case n <= 10000:
		l = append(l, "len:65-1e4")
	default:
		l = append(l, "len:>1e4")
	}
	return l
}

func sample(c Case) any {
	s := c.Bytes()
	return map[string]any{"kind": c.Kind, "length": len(s), "string_quoted": fmt.Sprintf("%q", string(s)), "rotation_offsets": c.Rots}
}

var subEnum = vk.Register(&vk.Sub[Case]{Name: "enum", Check: check, NonTrivial: nonTrivial, Sample: sample})

var subEdges = vk.Register(&vk.Sub[Case]{Name: "edges", Check: check, NonTrivial: nonTrivial, Labels: labels, Sample: sample})

var subStructured = vk.Register(&vk.Sub[Case]{Name: "structured", Gen: genStructured, Check: check, NonTrivial: nonTrivial, Labels: labels, Sample: sample})

func genStructured(t *rapid.T) Case {
	maxLen := vk.Pick(200000, 1000000)
	// the last three hold bytes >= 0x80 only: valid multi-byte UTF-8 (e with acute, u with diaeresis), stray continuation and lead bytes
	alphas := []string{"AC", "ACGT", "ACGTRYSWKMBDHVN", "aA", "ACGTacgt", "ACGTNacgtn*-", "\x00\xff", "ab\x00\xffz", "\xc3\xa9\xc3\xbc", "\x80\xbf\xc2\xff", "\xc3\xa9"}
	alpha := rapid.SampledFrom(alphas).Draw(t, "alpha")
	letter := func(name string) byte { return alpha[rapid.IntRange(0, len(alpha)-1).Draw(t, name)] }
	unit := func(name string, lo, hi int) []byte {
		n := rapid.IntRange(lo, hi).Draw(t, name+"_len")
		b := make([]byte, n)
		for i := range b {
			b[i] = letter(name)
		}
		return b
	}
	length := func() int { return vk.DrawSize(t, "len", 0, maxLen) }
	// a changed letter near the end of a periodic string leaves the longest borders
	mutPos := func() int {
		switch rapid.IntRange(0, 3).Draw(t, "mut_where") {
		case 0:
			return -1 - rapid.IntRange(0, 40).Draw(t, "mut_from_end")
		case 1:
			return rapid.IntRange(0, 40).Draw(t, "mut_from_start")
		default:
			return rapid.IntRange(0, 1<<30).Draw(t, "mut_pos")
		}
	}
	c := Case{Kind: rapid.SampledFrom([]string{"literal", "power", "nearpower", "nearpower", "periodic", "nearperiodic", "nearperiodic", "fibonacci", "thuemorse", "fill", "runs", "runs"}).Draw(t, "kind")}
	switch c.Kind {
	case "literal":
		c.Unit = unit("lit", 0, 40)
	case "power", "nearpower":
		c.Unit = unit("unit", 1, 12)
		c.Reps = length() / len(c.Unit)
		c.MutPos = mutPos()
		c.MutVal = letter("mut_val")
	case "periodic", "nearperiodic":
		c.Unit = unit("unit", 1, 12)
		c.Reps = length()
		c.MutPos = mutPos()
		c.MutVal = letter("mut_val")
	case "fibonacci", "thuemorse":
		a := letter("a")
		b := letter("b")
		c.Unit = []byte{a, b}
		c.Reps = length()
	case "fill":
		c.Fill = rapid.Uint64().Draw(t, "fill")
		c.Alpha = alpha
		c.Reps = length()
	case "runs":
		// runs of the smallest letter whose lengths tie, separated by filler without that letter, stored with the
		// origin inside a run: the candidates a least-rotation search has to tell apart by what follows the runs
		letters := []byte(alpha)
		min := letters[0]
		for _, x := range letters {
			if x < min {
				min = x
			}
		}
		c.Unit = []byte{min}
		c.Alpha = strings.ReplaceAll(alpha, string(min), "")
		c.Fill = rapid.Uint64().Draw(t, "fill")
		base := rapid.IntRange(1, 9).Draw(t, "run_base")
		k := rapid.IntRange(2, 5).Draw(t, "n_runs")
		for i := 0; i < k; i++ {
			c.Runs = append(c.Runs, max(1, base+rapid.IntRange(-1, 0).Draw(t, "run_delta")))
			g := rapid.IntRange(1, 12).Draw(t, "gap")
			if rapid.IntRange(0, 5).Draw(t, "long_gap") == 0 {
				g = vk.DrawSize(t, "gap_long", 100, 9000)
			}
			c.Gaps = append(c.Gaps, g)
		}
		switch rapid.IntRange(0, 2).Draw(t, "origin_where") {
		case 0:
			c.Origin = rapid.IntRange(0, c.Runs[0]).Draw(t, "origin_in_first_run")
		case 1:
			c.Origin = 0
		default:
			c.Origin = rapid.IntRange(0, 1<<30).Draw(t, "origin")
		}
	}
	c.Rots = rapid.SliceOfN(rapid.IntRange(0, 1<<30), 1, 4).Draw(t, "rots")
	return c
}

func TestSub_structured(t *testing.T) { vk.RunRapid(t, subStructured) }

var subCollisions = vk.Register(&vk.Sub[Case]{Name: "collisions", Check: check, NonTrivial: nonTrivial, Sample: sample})

// TestSub_collisions: the two strings of every checksum-colliding pair (vk.CollidingPairs) one directly after the other.
func TestSub_collisions(t *testing.T) {
	vk.RunEnum(t, subCollisions, "every checksum-colliding pair of 30-letter strings x both orders", true, func(yield func(Case) bool) {
		for _, pr := range vk.CollidingPairs() {
			for _, o := range [][2]string{{pr.A, pr.B}, {pr.B, pr.A}} {
				if !yield(Case{Kind: "literal", Unit: []byte(o[1]), Prior: o[0], Rots: []int{1, 7, 29}}) {
					return
				}
			}
		}
	})
}

// TestSub_edges walks the edge lengths (vk.EdgeSizes) of 200..10^6 and evaluates, at each, periodic
// strings, periodic strings with one letter changed (to a smaller and to a larger letter, near the end,
// late, just past the middle, and at the start), both Fibonacci words, the Thue-Morse word and
// filler: the long-border inputs on which a table- or index-width slip in Booth's algorithm shows.
func TestSub_edges(t *testing.T) {
	positions := func(L int) []int {
		if vk.Thorough() {
			return []int{L - 1, L * 7 / 8, L/2 + 1, 1}
		}
		return []int{L - 1, L * 7 / 8}
	}
	vk.RunEnum(t, subEdges, "edge lengths of 200..10^6 x {periodic, one letter changed, Fibonacci, Thue-Morse, filler}", true, func(yield func(Case) bool) {
		for _, L := range vk.EdgeSizes(200, 1000000) {
			rots := []int{L / 3}
			if vk.Thorough() {
				rots = []int{1, L / 3, L - 1}
			}
			cases := []Case{
				{Kind: "periodic", Unit: []byte("CG"), Reps: L},
				{Kind: "periodic", Unit: []byte("GCC"), Reps: L},
				{Kind: "fibonacci", Unit: []byte("AB"), Reps: L},
				{Kind: "fibonacci", Unit: []byte("BA"), Reps: L},
				{Kind: "thuemorse", Unit: []byte("AB"), Reps: L},
				{Kind: "fill", Fill: uint64(L) ^ vk.Seed(), Alpha: "AC", Reps: L},
			}
			for _, p := range positions(L) {
				for _, v := range []byte{'A', 'T'} {
					cases = append(cases, Case{Kind: "nearperiodic", Unit: []byte("CG"), Reps: L, MutPos: p, MutVal: v})
				}
			}
			// two equally long runs of the smallest letter, one of them straddling the origin, with the fillers in either order
			if L >= 40 {
				g := (L - 12) / 2
				for _, fill := range []uint64{1, 2} {
					cases = append(cases, Case{Kind: "runs", Unit: []byte("A"), Alpha: "CGT", Fill: fill + uint64(L), Runs: []int{6, 6}, Gaps: []int{g, L - 12 - g}, Origin: 3},
						Case{Kind: "runs", Unit: []byte("A"), Alpha: "CGT", Fill: fill + uint64(L), Runs: []int{6, 6}, Gaps: []int{g, L - 12 - g}, Origin: 3 + 6 + g})
				}
			}
			for _, c := range cases {
				c.Rots = rots
				if !yield(c) {
					return
				}
			}
		}
	})
}

func TestSub_enum(t *testing.T) {
	type space struct {
		alpha  []byte
		maxLen int
	}
	spaces := []space{
		{[]byte("AC"), vk.Pick(16, 20)},
		{[]byte("ACG"), vk.Pick(10, 13)},
		{[]byte("ACGT"), vk.Pick(8, 11)},
		{[]byte("aA"), vk.Pick(10, 13)}, // letters that differ in case only (soft-masked sequence): byte order, not folded order
		{[]byte("AaCc"), vk.Pick(6, 8)},
		{[]byte{0x00, 0xff}, vk.Pick(10, 14)},
		{[]byte{0x00, 'A', 0xff}, vk.Pick(7, 9)},
		{[]byte{0xc3, 0xa9, 0xbc}, vk.Pick(7, 9)}, // bytes >= 0x80 only: strings that are partly valid multi-byte UTF-8
	}
	name := ""
	for _, sp := range spaces {
		name += fmt.Sprintf("all strings over %q up to length %d; ", string(sp.alpha), sp.maxLen)
	}
	vk.RunEnum(t, subEnum, name, true, func(yield func(Case) bool) {
		for _, sp := range spaces {
			for n := 0; n <= sp.maxLen; n++ {
				idx := make([]int, n)
				buf := make([]byte, n)
				for {
					for i := range buf {
						buf[i] = sp.alpha[idx[i]]
					}
					if !yield(Case{Kind: "literal", Unit: append([]byte{}, buf...)}) {
						return
					}
					p := n - 1
					for p >= 0 {
						idx[p]++
						if idx[p] < len(sp.alpha) {
							break
						}
						idx[p] = 0
						p--
					}
					if p < 0 {
						break
					}
				}
			}
		}
	})
}

var subPairs = vk.Register(&vk.Sub[Case]{Name: "pairs", Check: check, NonTrivial: func(c Case) bool { return true }})

// TestSub_pairs: the order is the order of bytes, for every two of them: every pair of distinct byte values a < b and
// every string of length 2..4 (quick) / 2..6 (thorough) over {a, b} in which both occur. A comparison that treats two
// different bytes alike, or orders any two otherwise than by value (letter case, U and T, gap and stop symbols, digits,
// bytes above 0x7f read as signed or as parts of runes), answers one of these wrongly.
func TestSub_pairs(t *testing.T) {
	maxLen := vk.Pick(4, 6)
	vk.RunEnum(t, subPairs, fmt.Sprintf("every pair of distinct byte values x every string of length 2..%d over the pair that holds both", maxLen), true, func(yield func(Case) bool) {
		for a := 0; a < 256; a++ {
			for b := a + 1; b < 256; b++ {
				for n := 2; n <= maxLen; n++ {
					for m := 1; m < (1<<n)-1; m++ { // m = 0 and all-ones hold one letter only
						u := make([]byte, n)
						for i := range u {
							u[i] = byte(a)
							if m>>i&1 == 1 {
								u[i] = byte(b)
							}
						}
						if !yield(Case{Kind: "literal", Unit: u}) {
							return
						}
					}
				}
			}
		}
	})
}

func TestReplay(t *testing.T) { vk.Replay(t) }

// native coverage-guided fuzzing over the same generator and oracle (thorough tier)
var subNativeFuzz = vk.Register(&vk.Sub[Case]{Name: "structured_fuzz", Gen: genStructured, Check: check})

func FuzzSub_structured_fuzz(f *testing.F) { vk.RunFuzz(f, subNativeFuzz) }
