// C08 — codon usage tables count exactly and never leak between calls.
package c08

import (
	"encoding/json"
	"fmt"
	"os"
	"path/filepath"
	"runtime"
	"sort"
	"strings"
	"sync"
	"testing"

	"github.com/TimothyStiles/poly/transform/codon"
	"pgregory.net/rapid"
	"verifharness/internal/ctab"
	"verifharness/internal/ref"
	"verifharness/internal/vk"
)

// Op is one step of a history. Handle operands are indices into the list of live handles,
// taken modulo its length when the step runs.
type Op struct {
	Kind string     `json:"kind"` // get | reweight | add | compromise | json | file | reread | stray
	ID   int        `json:"id,omitempty"`
	H1   int        `json:"h1,omitempty"`
	H2   int        `json:"h2,omitempty"`
	Seq  vk.SeqSpec `json:"seq,omitempty"`
	Cut  float64    `json:"cut,omitempty"`
}

type Case struct {
	Ops []Op `json:"ops"`
	// Detach: every re-weighted handle is first passed through a JSON round trip, so no
	// history shares storage with a default table; such histories must match the
	// value-semantics model exactly.
	Detach bool `json:"detach,omitempty"`
	// Strict: no tolerance for the known finding K-C08-1 (used by its witness and by Detach runs).
	Strict bool `json:"strict,omitempty"`
}

const knownID = "K-C08-1"

type handle struct {
	real    codon.Table
	id      int
	val     map[string]int  // value-semantics model: this handle's own weights
	store   *map[string]int // aliasing model: weight store possibly shared with other handles
	letters map[string]string
	starts  []string
	stops   []string
}

func allOnes() map[string]int {
	m := map[string]int{}
	for _, c := range ref.AllCodons() {
		m[c] = 1
	}
	return m
}

func copyW(m map[string]int) map[string]int {
	o := make(map[string]int, len(m))
	for k, v := range m {
		o[k] = v
	}
	return o
}

// countInFrame: number of in-frame, case-insensitive occurrences of each codon.
func countInFrame(s string) map[string]int {
	m := map[string]int{}
	u := strings.ToUpper(s)
	for i := 0; i+3 <= len(u); i += 3 {
		m[u[i:i+3]]++
	}
	out := map[string]int{}
	for _, c := range ref.AllCodons() {
		out[c] = m[c]
	}
	return out
}

type flat struct {
	w map[string]int
	l map[string]string
}

func flatten(t codon.Table) (flat, error) {
	f := flat{map[string]int{}, map[string]string{}}
	for _, aa := range t.AminoAcids {
		for _, c := range aa.Codons {
			if _, dup := f.w[c.Triplet]; dup {
				return f, fmt.Errorf("codon %s occurs twice in the table", c.Triplet)
			}
			f.w[c.Triplet] = c.Weight
			f.l[c.Triplet] = aa.Letter
		}
	}
	if len(f.w) != 64 {
		return f, fmt.Errorf("table holds %d codons, want 64", len(f.w))
	}
	return f, nil
}

func sameW(a, b map[string]int) bool {
	if len(a) != len(b) {
		return false
	}
	for k, v := range a {
		if b[k] != v {
			return false
		}
	}
	return true
}

func diffW(obs, want map[string]int) string {
	var d []string
	for _, c := range ref.AllCodons() {
		if obs[c] != want[c] {
			d = append(d, fmt.Sprintf("%s: got %d want %d", c, obs[c], want[c]))
		}
	}
	if len(d) > 6 {
		d = append(d[:6], fmt.Sprintf("… %d codons differ", len(d)))
	}
	return strings.Join(d, "; ")
}

func sameList(a, b []string) bool {
	x, y := append([]string{}, a...), append([]string{}, b...)
	sort.Strings(x)
	sort.Strings(y)
	return strings.Join(x, ",") == strings.Join(y, ",")
}

func pristineLetters(id int) map[string]string {
	g, _ := ref.GeneticCodeByID(id)
	m := map[string]string{}
	for _, c := range ref.AllCodons() {
		m[c] = string(g.AminoAcid(c))
	}
	return m
}

var everyCodonOnce = strings.Join(ref.AllCodons(), "")

// restoreDefaults undoes what earlier cases in this process may have leaked into the
// package's default tables: re-weighting with a string holding every codon once sets all
// weights to 1 exactly when re-weighting leaks, and touches nothing when it does not.
func restoreDefaults() {
	for _, g := range ref.GeneticCodes {
		codon.GetCodonTable(g.ID).OptimizeTable(everyCodonOnce)
	}
}

func checkPristine(id int) error {
	g, _ := ref.GeneticCodeByID(id)
	f, err := flatten(codon.GetCodonTable(id))
	if err != nil {
		return vk.Errf("default table %d: %v", id, err)
	}
	if !sameW(f.w, allOnes()) {
		return vk.Errf("freshly requested default table %d does not carry uniform weight 1: %s", id, diffW(f.w, allOnes()))
	}
	for c, l := range pristineLetters(id) {
		if f.l[c] != l {
			return vk.Errf("freshly requested default table %d assigns %s to %q, NCBI %q", id, c, f.l[c], l)
		}
	}
	t := codon.GetCodonTable(id)
	if !sameList(t.StartCodons, g.Starts) || !sameList(t.StopCodons, g.Stops) {
		return vk.Errf("freshly requested default table %d has start/stop codons %v / %v", id, t.StartCodons, t.StopCodons)
	}
	return nil
}

var firstUse sync.Once
var firstUseErr error

type verdict struct {
	knownSteps int
}

func compromiseExpect(w1, w2 map[string]int, letters map[string]string, cut float64) (map[string]int, bool) {
	tot1, tot2 := map[string]int{}, map[string]int{}
	for c, l := range letters {
		tot1[l] += w1[c]
		tot2[l] += w2[c]
	}
	out := map[string]int{}
	cw := int(10000 * cut)
	for c, l := range letters {
		if tot1[l] == 0 || tot2[l] == 0 {
			return nil, false
		}
		s1 := 10000 * w1[c] / tot1[l]
		s2 := 10000 * w2[c] / tot2[l]
		if s1 < cw || s2 < cw {
			out[c] = 0
		} else {
			out[c] = (s1 + s2) / 2
		}
	}
	return out, true
}

func within1(obs, want map[string]int, shareNearCut func(c string) bool) bool {
	for c, w := range want {
		d := obs[c] - w
		if d < -1 || d > 1 {
			if obs[c] == 0 || w == 0 { // a share within rounding distance of the cut-off may fall on either side
				if shareNearCut(c) {
					continue
				}
			}
			return false
		}
	}
	return true
}

// writtenFile: a table file written by a "file" step, with what it held when it was written.
type writtenFile struct {
	path          string
	id            int
	val, store    map[string]int
	letters       map[string]string
	starts, stops []string
}

func check(c Case) error {
	firstUse.Do(func() {
		// the very first thing this process does with the codon package: all defaults are pristine
		for _, g := range ref.GeneticCodes {
			if err := checkPristine(g.ID); err != nil {
				firstUseErr = err
				return
			}
		}
	})
	if firstUseErr != nil {
		return firstUseErr
	}
	restoreDefaults()
	for _, g := range ref.GeneticCodes {
		if err := checkPristine(g.ID); err != nil {
			return vk.Errf("after restoring defaults: %v", err)
		}
	}
	tolerateKnown := !c.Strict && !c.Detach && vk.KnownActive(knownID)
	defaultStores := map[int]*map[string]int{}
	defStore := func(id int) *map[string]int {
		if s, ok := defaultStores[id]; ok {
			return s
		}
		m := allOnes()
		defaultStores[id] = &m
		return &m
	}
	var hs []*handle
	var files []writtenFile
	defer func() {
		for _, f := range files {
			_ = os.Remove(f.path)
		}
	}()
	usedIDs := map[int]bool{}
	knownSteps := 0

	observe := func(step int, op Op) error {
		stepKnown := false
		for i, h := range hs {
			f, err := flatten(h.real)
			if err != nil {
				return vk.Errf("step %d (%s): handle %d: %v", step, op.Kind, i, err)
			}
			for cd, l := range h.letters {
				if f.l[cd] != l {
					return vk.Errf("step %d (%s): handle %d (code %d) now assigns %s to %q, was %q", step, op.Kind, i, h.id, cd, f.l[cd], l)
				}
			}
			if !sameList(h.real.StartCodons, h.starts) || !sameList(h.real.StopCodons, h.stops) {
				return vk.Errf("step %d (%s): handle %d start/stop codons changed to %v / %v", step, op.Kind, i, h.real.StartCodons, h.real.StopCodons)
			}
			if sameW(f.w, h.val) {
				continue
			}
			if tolerateKnown && sameW(f.w, *h.store) {
				stepKnown = true
				continue
			}
			return vk.Errf("step %d (%s): handle %d (code %d) differs from the value-semantics model: %s", step, op.Kind, i, h.id, diffW(f.w, h.val))
		}
		for id := range usedIDs {
			f, err := flatten(codon.GetCodonTable(id))
			if err != nil {
				return vk.Errf("step %d: default table %d: %v", step, id, err)
			}
			for cd, l := range pristineLetters(id) {
				if f.l[cd] != l {
					return vk.Errf("step %d (%s): fresh default table %d assigns %s to %q, NCBI %q", step, op.Kind, id, cd, f.l[cd], l)
				}
			}
			if sameW(f.w, allOnes()) {
				continue
			}
			if tolerateKnown && sameW(f.w, *defStore(id)) {
				stepKnown = true
				continue
			}
			return vk.Errf("step %d (%s): a freshly requested default table %d no longer carries uniform weight 1: %s", step, op.Kind, id, diffW(f.w, allOnes()))
		}
		if stepKnown {
			knownSteps++
		}
		return nil
	}

	pick := func(i int) *handle { return hs[((i%len(hs))+len(hs))%len(hs)] }
	add := func(h *handle) {
		if len(hs) >= 6 {
			hs = hs[1:]
		}
		hs = append(hs, h)
	}
	detach := func(h *handle) error {
		b, err := json.Marshal(h.real)
		if err != nil {
			return vk.Harnessf("marshal: %v", err)
		}
		h.real = codon.ParseCodonJSON(b)
		nv := copyW(*h.store)
		h.store = &nv
		return nil
	}

	for step, op := range c.Ops {
		kind := op.Kind
		if len(hs) == 0 && kind != "get" {
			kind = "get"
			if _, ok := ref.GeneticCodeByID(op.ID); !ok {
				op.ID = 11
			}
		}
		switch kind {
		case "stray":
			// a table number NCBI does not define (a gap in the numbering, a retired number, 0, a negative one): whatever
			// the library hands out for it is re-weighted; nothing of that may show in any table that is defined
			func() {
				defer func() { _ = recover() }()
				_ = codon.GetCodonTable(op.ID).OptimizeTable(op.Seq.String())
			}()
			for _, id := range tableIDs { // from here on every defined table is looked at after every step
				usedIDs[id] = true
			}
		case "get":
			g, ok := ref.GeneticCodeByID(op.ID)
			if !ok {
				return vk.Harnessf("bad table id %d", op.ID)
			}
			usedIDs[op.ID] = true
			add(&handle{real: codon.GetCodonTable(op.ID), id: op.ID, val: allOnes(), store: defStore(op.ID), letters: pristineLetters(op.ID), starts: g.Starts, stops: g.Stops})
		case "reweight":
			h := pick(op.H1)
			if c.Detach {
				if err := detach(h); err != nil {
					return err
				}
			}
			s := op.Seq.String()
			res := h.real.OptimizeTable(s)
			cnt := countInFrame(s)
			// the receiver is replaced by the result (t = t.OptimizeTable(s)): whether the receiver itself
			// is modified is documented behaviour the property is silent about
			h.real = res
			h.val = cnt
			*h.store = copyW(cnt)
		case "add":
			a, b := pick(op.H1), pick(op.H2)
			res := codon.AddCodonTable(a.real, b.real)
			nv, ns := map[string]int{}, map[string]int{}
			for _, cd := range ref.AllCodons() {
				nv[cd] = a.val[cd] + b.val[cd]
				ns[cd] = (*a.store)[cd] + (*b.store)[cd]
			}
			add(&handle{real: res, id: a.id, val: nv, store: &ns, letters: a.letters, starts: a.starts, stops: a.stops})
		case "compromise":
			a, b := pick(op.H1), pick(op.H2)
			if a.id != b.id {
				continue // different genetic codes: outside the domain of CompromiseCodonTable
			}
			// zero synonym-class totals make the shares undefined: skip (judged on what the tables really hold)
			fa, _ := flatten(a.real)
			fb, _ := flatten(b.real)
			if _, ok := compromiseExpect(fa.w, fb.w, a.letters, 0.5); !ok {
				continue
			}
			res, err := codon.CompromiseCodonTable(a.real, b.real, op.Cut)
			if op.Cut < 0 || op.Cut > 1 {
				if err == nil {
					return vk.Errf("step %d: CompromiseCodonTable accepted the cut-off %v", step, op.Cut)
				}
				continue
			}
			if err != nil {
				return vk.Errf("step %d: CompromiseCodonTable rejected the cut-off %v: %v", step, op.Cut, err)
			}
			fr, ferr := flatten(res)
			if ferr != nil {
				return vk.Errf("step %d: compromise result: %v", step, ferr)
			}
			near := func(w1, w2 map[string]int) func(string) bool {
				return func(cd string) bool {
					t1, t2 := 0, 0
					for x, l := range a.letters {
						if l == a.letters[cd] {
							t1 += w1[x]
							t2 += w2[x]
						}
					}
					cw := int(10000 * op.Cut)
					d1 := 10000*w1[cd]/max(t1, 1) - cw
					d2 := 10000*w2[cd]/max(t2, 1) - cw
					return (d1 >= -1 && d1 <= 1) || (d2 >= -1 && d2 <= 1)
				}
			}
			nv, ns := map[string]int{}, map[string]int{}
			ev, okv := compromiseExpect(a.val, b.val, a.letters, op.Cut)
			es, oks := compromiseExpect(*a.store, *b.store, a.letters, op.Cut)
			matchV := okv && within1(fr.w, ev, near(a.val, b.val))
			matchS := oks && within1(fr.w, es, near(*a.store, *b.store))
			switch {
			case matchV:
				nv = copyW(fr.w)
				if matchS {
					ns = copyW(fr.w)
				} else {
					ns = copyW(fr.w)
				}
			case matchS && tolerateKnown:
				// the inputs had already diverged from the value model through the known leak
				nv, ns = ev, copyW(fr.w)
				if !okv {
					nv = copyW(fr.w)
				}
			default:
				return vk.Errf("step %d: compromise of handles (code %d, cut %v) is not the mean of the usage shares: %s", step, a.id, op.Cut, diffW(fr.w, ev))
			}
			add(&handle{real: res, id: a.id, val: nv, store: &ns, letters: a.letters, starts: a.starts, stops: a.stops})
		case "json", "file":
			h := pick(op.H1)
			var res codon.Table
			if kind == "json" {
				b, err := json.Marshal(h.real)
				if err != nil {
					return vk.Harnessf("marshal: %v", err)
				}
				buf, intact := vk.Guarded(b)
				res = codon.ParseCodonJSON(buf)
				if err := intact(); err != nil {
					return fmt.Errorf("ParseCodonJSON: %v", err)
				}
				vk.Scribble(buf)
			} else {
				p := filepath.Join(vk.WorkDir(), fmt.Sprintf("table-%d.json", step))
				vk.StaleFile(p, 40000)
				vk.AlternateTempDir(func() { codon.WriteCodonJSON(h.real, p) })
				res = codon.ReadCodonJSON(p)
				// a second read of the same, unchanged file is another table of its own
				again := codon.ReadCodonJSON(p)
				ns2 := copyW(*h.store)
				add(&handle{real: again, id: h.id, val: copyW(h.val), store: &ns2, letters: h.letters, starts: h.starts, stops: h.stops})
				// the file stays until the history ends: a later "reread" step reads it again, whatever happened
				// to the table it was written from in the meantime
				files = append(files, writtenFile{path: p, id: h.id, val: copyW(h.val), store: copyW(*h.store), letters: h.letters, starts: h.starts, stops: h.stops})
			}
			ns := copyW(*h.store)
			add(&handle{real: res, id: h.id, val: copyW(h.val), store: &ns, letters: h.letters, starts: h.starts, stops: h.stops})
		case "reread":
			if len(files) == 0 {
				continue // nothing written yet in this history
			}
			f := files[((op.H1%len(files))+len(files))%len(files)]
			res := codon.ReadCodonJSON(f.path)
			ns := copyW(f.store)
			add(&handle{real: res, id: f.id, val: copyW(f.val), store: &ns, letters: f.letters, starts: f.starts, stops: f.stops})
		default:
			return vk.Harnessf("unknown op %q", op.Kind)
		}
		if err := observe(step, op); err != nil {
			return err
		}
	}
	if knownSteps > 0 {
		vk.Count("histories with a step explained only by the aliasing model (known finding K-C08-1)", 1)
		vk.CountExcluded("steps matching the aliasing model of K-C08-1")
	}
	return nil
}

func nonTrivial(c Case) bool {
	ids := map[int]bool{}
	reweighted := false
	readAfter := false
	gets := map[int]int{}
	for _, op := range c.Ops {
		switch op.Kind {
		case "get":
			ids[op.ID] = true
			gets[op.ID]++
			if reweighted {
				readAfter = true
			}
		case "reweight":
			reweighted = true
			for _, n := range gets {
				if n >= 2 {
					readAfter = true
				}
			}
		}
	}
	return (reweighted && (readAfter || len(c.Ops) >= 2)) || len(ids) >= 2
}

func labels(c Case) []string {
	kinds := map[string]bool{}
	ids := map[int]bool{}
	for _, op := range c.Ops {
		kinds[op.Kind] = true
		if op.Kind == "get" {
			ids[op.ID] = true
		}
	}
	l := []string{fmt.Sprintf("ops:%d", min(len(c.Ops), 9))}
	for k := range kinds {
		l = append(l, "has:"+k)
	}
	if len(ids) >= 2 {
		l = append(l, ">=2 table ids")
	}
	return l
}

func sample(c Case) any {
	var ops []string
	for _, op := range c.Ops {
		switch op.Kind {
		case "get":
			ops = append(ops, fmt.Sprintf("get(%d)", op.ID))
		case "reweight":
			s := op.Seq.String()
			if len(s) > 40 {
				s = fmt.Sprintf("%s…(%d letters)", s[:40], len(s))
			}
			ops = append(ops, fmt.Sprintf("reweight(h%d, %q)", op.H1, s))
		case "add":
			ops = append(ops, fmt.Sprintf("add(h%d,h%d)", op.H1, op.H2))
		case "compromise":
			ops = append(ops, fmt.Sprintf("compromise(h%d,h%d,%v)", op.H1, op.H2, op.Cut))
		default:
			ops = append(ops, fmt.Sprintf("%s(h%d)", op.Kind, op.H1))
		}
	}
	return map[string]any{"history": ops, "detach_before_reweight": c.Detach, "strict": c.Strict}
}

var tableIDs = func() []int {
	ids := make([]int, len(ref.GeneticCodes))
	for i, g := range ref.GeneticCodes {
		ids[i] = g.ID
	}
	return ids
}()

// seqAlphabets: nucleotides in either case, IUPAC and gap letters, every ASCII letter, and what else a pasted sequence
// may hold - digits, blanks, line breaks, punctuation (the characters that share their low five bits with A, C, G or T
// among them).
var seqAlphabets = []string{"ACGT", "ACGT", "acgt", "ACGTacgt", "ACGTN", "ACGTURYKMSWacgtnx-*",
	"ABCDEFGHIJKLMNOPQRSTUVWXYZabcdefghijklmnopqrstuvwxyz",
	"ACGTACGTACGTacgtacgt!#'4$%17ADGTadgt\"3CSsc&Ww \n\t0123456789.,;:/()[]<>=+_~^`@|{}?"}

// genSeq: a coding sequence; one in five is shaped like a complete gene of table id (start codon, whole codons, stop codon).
func genSeq(t *rapid.T, id int) vk.SeqSpec {
	if rapid.IntRange(0, 4).Draw(t, "gene_shaped") == 0 {
		return vk.SeqSpec{Lit: ctab.DrawGene(t, "gene", id, 33000)}
	}
	alpha := rapid.SampledFrom(seqAlphabets).Draw(t, "seq_alphabet")
	return vk.DrawSeq(t, "seq", alpha, 0, 100000)
}

func genOps(t *rapid.T) []Op {
	n := rapid.IntRange(1, 10).Draw(t, "n_ops")
	// a small pool of ids so that several handles of the same id meet
	pool := rapid.SliceOfNDistinct(rapid.SampledFrom(tableIDs), 1, 3, func(i int) int { return i }).Draw(t, "id_pool")
	ops := make([]Op, 0, n)
	for i := 0; i < n; i++ {
		kind := rapid.SampledFrom([]string{"get", "get", "reweight", "reweight", "reweight", "add", "compromise", "json", "file", "reread", "stray"}).Draw(t, "op")
		op := Op{Kind: kind}
		switch kind {
		case "stray":
			op.ID = rapid.SampledFrom([]int{0, 7, 8, 17, 18, 19, 20, 32, 34, 35, -1, 100, 1 << 20}).Draw(t, "undefined_id")
			op.Seq = vk.SeqSpec{Lit: everyCodonOnce + genSeq(t, rapid.SampledFrom(pool).Draw(t, "gene_of")).String()}
		case "get":
			op.ID = rapid.SampledFrom(pool).Draw(t, "id")
		case "reweight":
			op.H1 = rapid.IntRange(0, 5).Draw(t, "h")
			op.Seq = genSeq(t, rapid.SampledFrom(pool).Draw(t, "gene_of"))
			if rapid.IntRange(0, 2).Draw(t, "cover_all_codons") == 0 {
				// make every synonym class non-empty so that compromise steps stay in their domain
				op.Seq = vk.SeqSpec{Lit: everyCodonOnce + op.Seq.String()}
			}
		case "add":
			op.H1, op.H2 = rapid.IntRange(0, 5).Draw(t, "h1"), rapid.IntRange(0, 5).Draw(t, "h2")
		case "compromise":
			op.H1, op.H2 = rapid.IntRange(0, 5).Draw(t, "h1"), rapid.IntRange(0, 5).Draw(t, "h2")
			op.Cut = rapid.SampledFrom([]float64{0, 0.05, 0.1, 0.25, 0.5, 1, -0.1, 1.5}).Draw(t, "cut")
		default:
			op.H1 = rapid.IntRange(0, 5).Draw(t, "h")
		}
		ops = append(ops, op)
	}
	return ops
}

var subHistory = vk.Register(&vk.Sub[Case]{Name: "history", Gen: func(t *rapid.T) Case { return Case{Ops: genOps(t)} }, Check: check, NonTrivial: nonTrivial, Labels: labels, Sample: sample})
var subDetached = vk.Register(&vk.Sub[Case]{Name: "history_detached", Gen: func(t *rapid.T) Case { return Case{Ops: genOps(t), Detach: true, Strict: true} }, Check: check, NonTrivial: nonTrivial, Labels: labels, Sample: sample})

func TestSub_history(t *testing.T)          { vk.RunRapid(t, subHistory) }
func TestSub_history_detached(t *testing.T) { vk.RunRapid(t, subDetached) }

// ---------------------------------------------------------------------------------------
// counting alone: one re-weighting of a detached table against the in-frame count

type CountCase struct {
	ID  int        `json:"id"`
	Seq vk.SeqSpec `json:"seq"`
	// Prior: a sequence with which another detached table is re-weighted immediately before (its result is
	// discarded): "the result depends only on that call's arguments"
	Prior string `json:"prior,omitempty"`
}

func checkCount(c CountCase) error {
	b, _ := json.Marshal(codon.GetCodonTable(c.ID))
	fresh := codon.ParseCodonJSON(b)
	fb, err := flatten(fresh)
	if err != nil {
		return vk.Errf("table %d after a JSON round trip: %v", c.ID, err)
	}
	s := c.Seq.String()
	if c.Prior != "" {
		_ = codon.ParseCodonJSON(b).OptimizeTable(c.Prior)
	}
	res := fresh.OptimizeTable(s)
	f, err := flatten(res)
	if err != nil {
		return vk.Errf("re-weighted table %d: %v", c.ID, err)
	}
	if want := countInFrame(s); !sameW(f.w, want) {
		return vk.Errf("OptimizeTable(%q) on table %d: %s", s, c.ID, diffW(f.w, want))
	}
	for cd, l := range fb.l {
		if f.l[cd] != l {
			return vk.Errf("OptimizeTable changed the assignment of %s from %q to %q", cd, l, f.l[cd])
		}
	}
	// sequences of the same length and other content (the same letters turned by 1, 2, 4 positions: other reading
	// frames), each freshly allocated, used and dropped, with a garbage collection in between
	if len(s) >= 1024 {
		return vk.Recycled(3, func(i int) string {
			k := (1 << uint(i)) % len(s)
			return string(append([]byte(s[k:]), s[:k]...))
		}, func(i int, turned string) error {
			ft, err := flatten(codon.ParseCodonJSON(b).OptimizeTable(turned))
			if err != nil {
				return vk.Errf("re-weighted table %d: %v", c.ID, err)
			}
			if want := countInFrame(turned); !sameW(ft.w, want) {
				return vk.Errf("OptimizeTable on table %d with the same %d letters turned by %d (a fresh string, after the earlier ones were dropped and collected): %s", c.ID, len(turned), 1<<uint(i), diffW(ft.w, want))
			}
			return nil
		})
	}
	return nil
}

var subCount = vk.Register(&vk.Sub[CountCase]{Name: "count", Check: checkCount,
	Gen: func(t *rapid.T) CountCase {
		id := rapid.SampledFrom(tableIDs).Draw(t, "id")
		return CountCase{ID: id, Seq: genSeq(t, id)}
	},
	NonTrivial: func(c CountCase) bool { return len(c.Seq.String()) >= 6 },
	Labels: func(c CountCase) []string {
		s := c.Seq.String()
		l := []string{fmt.Sprintf("len mod 3 = %d", len(s)%3)}
		if strings.ToUpper(s) != s {
			l = append(l, "has lower case")
		}
		if strings.Trim(strings.ToUpper(s), "ACGT") != "" {
			l = append(l, "has non-ACGT letters")
		}
		if len(s) > 10000 {
			l = append(l, "len>1e4")
		}
		return l
	}})

func TestSub_count(t *testing.T) { vk.RunRapid(t, subCount) }

var subCollisions = vk.Register(&vk.Sub[CountCase]{Name: "collisions", Check: checkCount, NonTrivial: func(CountCase) bool { return true }})

// TestSub_collisions re-weights with the two sequences of every checksum-colliding pair (vk.CollidingPairs: distinct
// equal-length coding sequences with the same FNV, CRC-32, Adler-32 or multiplicative 32-bit checksum), one directly
// after the other, in both orders and in upper and lower case: the second count must be the second sequence's.
func TestSub_collisions(t *testing.T) {
	vk.RunEnum(t, subCollisions, "every checksum-colliding pair of 30-letter coding sequences x both orders x {upper, lower case} x 2 table ids", true, func(yield func(CountCase) bool) {
		for _, pr := range vk.CollidingPairs() {
			for _, id := range []int{11, 1} {
				for _, o := range [][2]string{{pr.A, pr.B}, {pr.B, pr.A}, {strings.ToLower(pr.A), strings.ToLower(pr.B)}, {pr.A, strings.ToLower(pr.B)}} {
					if !yield(CountCase{ID: id, Seq: vk.SeqSpec{Lit: o[1]}, Prior: o[0]}) {
						return
					}
				}
			}
		}
	})
}

// ---------------------------------------------------------------------------------------
// concurrency: goroutines released together re-weight, translate with and read tables of
// different ids; results must equal the sequential model (run under the race detector)

type ConcCase struct {
	IDs    []int        `json:"ids"` // pairwise distinct
	Seqs   []vk.SeqSpec `json:"seqs"`
	Procs  int          `json:"gomaxprocs"`
	Rounds int          `json:"rounds"`
}

func checkConc(c ConcCase) error {
	restoreDefaults()
	old := runtime.GOMAXPROCS(c.Procs)
	defer runtime.GOMAXPROCS(old)
	tolerate := vk.KnownActive(knownID)
	for round := 0; round < c.Rounds; round++ {
		var wg sync.WaitGroup
		start := make(chan struct{})
		errs := make([]error, len(c.IDs))
		for i := range c.IDs {
			wg.Add(1)
			go func(i int) {
				defer wg.Done()
				defer func() {
					if r := recover(); r != nil {
						errs[i] = fmt.Errorf("panic in goroutine for table %d: %v", c.IDs[i], r)
					}
				}()
				id, s := c.IDs[i], c.Seqs[i].String()
				g, _ := ref.GeneticCodeByID(id)
				<-start
				res := codon.GetCodonTable(id).OptimizeTable(s)
				f, err := flatten(res)
				if err != nil {
					errs[i] = err
					return
				}
				if want := countInFrame(s); !sameW(f.w, want) {
					errs[i] = vk.Errf("concurrent re-weighting of table %d: %s", id, diffW(f.w, want))
					return
				}
				for cd, l := range pristineLetters(id) {
					if f.l[cd] != l {
						errs[i] = vk.Errf("concurrent re-weighting of table %d: %s assigned to %q, NCBI %q", id, cd, f.l[cd], l)
						return
					}
				}
				probe := strings.ToUpper(everyCodonOnce)
				if tr, err := codon.Translate(probe, res); err != nil || tr != g.TranslateRef(probe) {
					errs[i] = vk.Errf("concurrent Translate with table %d = %q (err %v), want %q", id, tr, err, g.TranslateRef(probe))
					return
				}
				fd, err := flatten(codon.GetCodonTable(id))
				if err != nil {
					errs[i] = err
					return
				}
				if !sameW(fd.w, allOnes()) && !(tolerate && sameW(fd.w, countInFrame(s))) {
					errs[i] = vk.Errf("default table %d read concurrently: %s", id, diffW(fd.w, allOnes()))
				}
			}(i)
		}
		close(start)
		wg.Wait()
		for _, e := range errs {
			if e != nil {
				return e
			}
		}
	}
	return nil
}

var subConc = vk.Register(&vk.Sub[ConcCase]{Name: "concurrent", Check: checkConc,
	Gen: func(t *rapid.T) ConcCase {
		ids := rapid.SliceOfNDistinct(rapid.SampledFrom(tableIDs), 2, 8, func(i int) int { return i }).Draw(t, "ids")
		c := ConcCase{IDs: ids, Procs: rapid.SampledFrom([]int{1, 2, 16}).Draw(t, "gomaxprocs"), Rounds: rapid.IntRange(1, 4).Draw(t, "rounds")}
		for range ids {
			c.Seqs = append(c.Seqs, vk.DrawSeq(t, "seq", "ACGTacgtN", 0, 3000))
		}
		return c
	},
	NonTrivial: func(c ConcCase) bool { return len(c.IDs) >= 2 },
	Labels: func(c ConcCase) []string {
		return []string{fmt.Sprintf("gomaxprocs:%d", c.Procs), fmt.Sprintf("goroutines:%d", len(c.IDs))}
	}})

func TestSub_concurrent(t *testing.T) { vk.RunRapid(t, subConc) }

func TestReplay(t *testing.T) { vk.Replay(t) }
