// C14 — GFF write-then-read preserves records and 1-based/0-based coordinates.
package c14

import (
	"fmt"
	"os"
	"path/filepath"
	"sort"
	"strconv"
	"strings"
	"testing"

	"github.com/TimothyStiles/poly"
	"github.com/TimothyStiles/poly/io/gff"
	"pgregory.net/rapid"
	"verifharness/internal/gbk"
	"verifharness/internal/vk"
)

type Feat struct {
	Seqid  string            `json:"seqid"`
	Source string            `json:"source"`
	Type   string            `json:"type"`
	Start  int               `json:"start"` // 1-based inclusive, as in the file
	End    int               `json:"end"`
	Score  string            `json:"score"`
	Strand string            `json:"strand"`
	Phase  string            `json:"phase"`
	Attrs  map[string]string `json:"attributes"`
}

type Case struct {
	Kind        string     `json:"kind"` // roundtrip | independent
	Name        string     `json:"name"`
	RegionStart int        `json:"region_start"`
	// RegionEnd (non-zero): the declared region does not end where the embedded sequence does - a sub-region of a
	// chromosome whose whole sequence is embedded, or a region longer than what is embedded. The bounds are metadata:
	// they come back as given, and so does the full sequence.
	RegionEnd int `json:"region_end,omitempty"`
	Seq         vk.SeqSpec `json:"seq"`
	Features    []Feat     `json:"features"`
	// independent writer layout
	Wrap         int      `json:"wrap,omitempty"`
	Directives   []string `json:"directives,omitempty"`
	Terminator   bool     `json:"terminator,omitempty"` // a "###" line before ##FASTA
	FinalNewline bool     `json:"final_newline,omitempty"`
}

func (c Case) regionEnd() int {
	if c.RegionEnd != 0 {
		return c.RegionEnd
	}
	return c.RegionStart + len(c.Seq.String()) - 1
}

func build(c Case) poly.Sequence {
	s := poly.Sequence{Sequence: c.Seq.String()}
	s.Meta.Name = c.Name
	s.Meta.GffVersion = "3"
	s.Meta.RegionStart = c.RegionStart
	s.Meta.RegionEnd = c.regionEnd()
	for _, f := range c.Features {
		attrs := map[string]string{}
		for k, v := range f.Attrs {
			attrs[k] = v
		}
		ft := poly.Feature{Name: f.Seqid, Source: f.Source, Type: f.Type, Score: f.Score, Strand: f.Strand, Phase: f.Phase, Attributes: attrs,
			SequenceLocation: poly.Location{Start: f.Start - 1, End: f.End}}
		s.AddFeature(&ft)
	}
	return s
}

// independent GFF3 writer
func write(c Case) []byte {
	var b strings.Builder
	fmt.Fprintf(&b, "##gff-version 3\n##sequence-region %s %d %d\n", c.Name, c.RegionStart, c.regionEnd())
	for _, d := range c.Directives {
		b.WriteString("##" + d + "\n")
	}
	for _, f := range c.Features {
		keys := make([]string, 0, len(f.Attrs))
		for k := range f.Attrs {
			keys = append(keys, k)
		}
		sort.Strings(keys)
		var attrs []string
		for _, k := range keys {
			attrs = append(attrs, k+"="+f.Attrs[k])
		}
		fmt.Fprintf(&b, "%s\t%s\t%s\t%d\t%d\t%s\t%s\t%s\t%s\n", f.Seqid, f.Source, f.Type, f.Start, f.End, f.Score, f.Strand, f.Phase, strings.Join(attrs, ";"))
	}
	if c.Terminator {
		b.WriteString("###\n")
	}
	b.WriteString("##FASTA\n>" + c.Name + "\n")
	seq := c.Seq.String()
	w := c.Wrap
	if w <= 0 {
		w = len(seq)
	}
	for len(seq) > 0 {
		n := min(w, len(seq))
		b.WriteString(seq[:n] + "\n")
		seq = seq[n:]
	}
	out := b.String()
	if !c.FinalNewline {
		out = strings.TrimSuffix(out, "\n")
	}
	return []byte(out)
}

func compare(what string, c Case, got poly.Sequence) error {
	seq := c.Seq.String()
	if got.Meta.Name != c.Name {
		return vk.Errf("%s: region name %q, written %q", what, got.Meta.Name, c.Name)
	}
	if got.Meta.RegionStart != c.RegionStart || got.Meta.RegionEnd != c.regionEnd() {
		return vk.Errf("%s: region bounds %d..%d, written %d..%d", what, got.Meta.RegionStart, got.Meta.RegionEnd, c.RegionStart, c.regionEnd())
	}
	if got.Sequence != seq {
		return vk.Errf("%s: sequence of %d letters read back as %d letters", what, len(seq), len(got.Sequence))
	}
	if len(got.Features) != len(c.Features) {
		return vk.Errf("%s: %d features read back, %d written", what, len(got.Features), len(c.Features))
	}
	// The property speaks of each feature, not of their order: features are matched as a multiset
	// (a writer may, for instance, sort rows by start coordinate).
	key := func(seqid, source, typ, score, strand, phase string, start0, end int, attrs map[string]string) string {
		ks := make([]string, 0, len(attrs))
		for k, v := range attrs {
			ks = append(ks, fmt.Sprintf("%q=%q", k, v))
		}
		sort.Strings(ks)
		return fmt.Sprintf("%q %q %q %q %q %q [%d,%d) %s", seqid, source, typ, score, strand, phase, start0, end, strings.Join(ks, ";"))
	}
	want := map[string]int{}
	for _, f := range c.Features {
		want[key(f.Seqid, f.Source, f.Type, f.Score, f.Strand, f.Phase, f.Start-1, f.End, f.Attrs)]++
	}
	for i, g := range got.Features {
		k := key(g.Name, g.Source, g.Type, g.Score, g.Strand, g.Phase, g.SequenceLocation.Start, g.SequenceLocation.End, g.Attributes)
		if want[k] == 0 {
			// find the written feature that looks most like it, for the message
			best := ""
			for _, f := range c.Features {
				if f.Seqid == g.Name && f.Type == g.Type && f.Source == g.Source {
					best = key(f.Seqid, f.Source, f.Type, f.Score, f.Strand, f.Phase, f.Start-1, f.End, f.Attrs)
					break
				}
			}
			return vk.Errf("%s: parsed feature %d {%s} (columns, in-memory [start,end), attributes) matches no written feature; closest written: {%s}", what, i, k, best)
		}
		want[k]--
		if g.SequenceLocation.Start < 0 || g.SequenceLocation.End > len(seq) || g.SequenceLocation.Start > g.SequenceLocation.End {
			return vk.Errf("%s: feature %d has location [%d,%d) outside the sequence of %d letters", what, i, g.SequenceLocation.Start, g.SequenceLocation.End, len(seq))
		}
		if fs := g.GetSequence(); fs != seq[g.SequenceLocation.Start:g.SequenceLocation.End] {
			return vk.Errf("%s: feature %d (%d..%d) reports sequence %q, bases %d..%d of the file's sequence are %q", what, i, g.SequenceLocation.Start+1, g.SequenceLocation.End, fs, g.SequenceLocation.Start+1, g.SequenceLocation.End, seq[g.SequenceLocation.Start:g.SequenceLocation.End])
		}
	}
	return nil
}

// readGFF is the harness's own GFF3 reader for what Build writes: the file as any other GFF3 tool would see it -
// directives, nine tab-separated columns with 1-based inclusive coordinates, key=value attributes separated by ';',
// a ##FASTA section whose lines are joined whatever their width.
func readGFF(text []byte) (name string, regionStart, regionEnd int, feats []Feat, seq string, err error) {
	lines := strings.Split(strings.TrimSuffix(string(text), "\n"), "\n")
	i, sawRegion := 0, false
	for ; i < len(lines); i++ {
		l := lines[i]
		switch {
		case l == "##FASTA":
		case strings.HasPrefix(l, "##sequence-region"):
			f := strings.Fields(l)
			if len(f) != 4 {
				return "", 0, 0, nil, "", fmt.Errorf("line %d: %q is not a sequence-region directive with a name and two bounds", i+1, l)
			}
			name = f[1]
			if regionStart, err = strconv.Atoi(f[2]); err != nil {
				return "", 0, 0, nil, "", fmt.Errorf("line %d: region start %q", i+1, f[2])
			}
			if regionEnd, err = strconv.Atoi(f[3]); err != nil {
				return "", 0, 0, nil, "", fmt.Errorf("line %d: region end %q", i+1, f[3])
			}
			sawRegion = true
			continue
		case strings.HasPrefix(l, "#") || l == "":
			continue
		default:
			col := strings.Split(l, "\t")
			if len(col) != 9 {
				return "", 0, 0, nil, "", fmt.Errorf("line %d: %d tab-separated columns, a feature line has 9: %q", i+1, len(col), l)
			}
			ft := Feat{Seqid: col[0], Source: col[1], Type: col[2], Score: col[5], Strand: col[6], Phase: col[7], Attrs: map[string]string{}}
			if ft.Start, err = strconv.Atoi(col[3]); err != nil {
				return "", 0, 0, nil, "", fmt.Errorf("line %d: start column %q", i+1, col[3])
			}
			if ft.End, err = strconv.Atoi(col[4]); err != nil {
				return "", 0, 0, nil, "", fmt.Errorf("line %d: end column %q", i+1, col[4])
			}
			if col[8] != "" {
				for _, kv := range strings.Split(col[8], ";") {
					k, v, ok := strings.Cut(kv, "=")
					if !ok {
						return "", 0, 0, nil, "", fmt.Errorf("line %d: attribute %q has no '='", i+1, kv)
					}
					if _, dup := ft.Attrs[k]; dup {
						return "", 0, 0, nil, "", fmt.Errorf("line %d: attribute %q occurs twice", i+1, k)
					}
					ft.Attrs[k] = v
				}
			}
			feats = append(feats, ft)
			continue
		}
		break
	}
	if !sawRegion {
		return "", 0, 0, nil, "", fmt.Errorf("no ##sequence-region directive")
	}
	if i >= len(lines) {
		return "", 0, 0, nil, "", fmt.Errorf("no ##FASTA section")
	}
	i++
	if i >= len(lines) || !strings.HasPrefix(lines[i], ">") {
		return "", 0, 0, nil, "", fmt.Errorf("the ##FASTA section does not start with a '>' line")
	}
	if id := strings.Fields(lines[i][1:] + " x")[0]; id != name && lines[i][1:] != name {
		return "", 0, 0, nil, "", fmt.Errorf("the FASTA record is named %q, the region %q", lines[i][1:], name)
	}
	var b strings.Builder
	for i++; i < len(lines); i++ {
		if strings.HasPrefix(lines[i], ">") {
			return "", 0, 0, nil, "", fmt.Errorf("a second FASTA record at line %d", i+1)
		}
		b.WriteString(strings.TrimRight(lines[i], "\r"))
	}
	return name, regionStart, regionEnd, feats, b.String(), nil
}

// compareFile judges Build's text as read by readGFF against the case: the absolute meaning of the file.
func compareFile(c Case, text []byte) error {
	name, rs, re, feats, seq, err := readGFF(text)
	if err != nil {
		return vk.Errf("Build(x) read by the harness's own GFF3 reader: %v --- text --- %s", err, clipText(text))
	}
	if name != c.Name || rs != c.RegionStart || re != c.regionEnd() {
		return vk.Errf("Build(x) read by the harness's own GFF3 reader: region %q %d..%d, given %q %d..%d", name, rs, re, c.Name, c.RegionStart, c.regionEnd())
	}
	if seq != c.Seq.String() {
		return vk.Errf("Build(x) read by the harness's own GFF3 reader: the FASTA section holds %d letters, given %d", len(seq), len(c.Seq.String()))
	}
	key := func(f Feat) string {
		ks := make([]string, 0, len(f.Attrs))
		for k, v := range f.Attrs {
			ks = append(ks, fmt.Sprintf("%q=%q", k, v))
		}
		sort.Strings(ks)
		return fmt.Sprintf("%q %q %q %d..%d %q %q %q %s", f.Seqid, f.Source, f.Type, f.Start, f.End, f.Score, f.Strand, f.Phase, strings.Join(ks, ";"))
	}
	want := map[string]int{}
	for _, f := range c.Features {
		want[key(f)]++
	}
	if len(feats) != len(c.Features) {
		return vk.Errf("Build(x) read by the harness's own GFF3 reader: %d feature lines, %d features given", len(feats), len(c.Features))
	}
	for _, f := range feats {
		if want[key(f)] == 0 {
			return vk.Errf("Build(x) read by the harness's own GFF3 reader: the feature line {%s} (columns with 1-based inclusive coordinates, attributes) matches no feature given", key(f))
		}
		want[key(f)]--
	}
	return nil
}

func clipText(b []byte) string {
	if len(b) > 600 {
		return string(b[:600]) + "…"
	}
	return string(b)
}

func check(c Case) error {
	if c.Kind == "independent" {
		text := write(c)
		what := fmt.Sprintf("independent writer, wrap %d, %d directives, terminator %v, final newline %v", c.Wrap, len(c.Directives), c.Terminator, c.FinalNewline)
		if err := compare("Parse("+what+")", c, gff.Parse(text)); err != nil {
			return err
		}
		// the same text through the file entry point
		p := filepath.Join(vk.WorkDir(), "independent.gff")
		defer os.Remove(p)
		if err := os.WriteFile(p, text, 0o644); err != nil {
			return vk.Harnessf("cannot write %s: %v", p, err)
		}
		return compare("Read(file laid out by the "+what+")", c, gff.Read(p))
	}
	x := build(c)
	text := gff.Build(x)
	if err := compare("the sequence after Build (the writer must not change its argument)", c, x); err != nil {
		return err
	}
	// the text handed back must stay what it is when another sequence is written before it is read
	snapshot := string(text)
	other := poly.Sequence{Sequence: strings.Repeat("tgca", len(x.Sequence)/8)}
	other.Meta.Name = "other"
	_, _ = gff.Build(other), gff.Build(other)
	if string(text) != snapshot {
		return vk.Errf("the bytes returned by Build(x) changed when another sequence was built afterwards: %q, was %q", string(text), snapshot)
	}
	// the file as another GFF3 tool reads it: 1-based inclusive coordinates, the columns and attributes, the sequence
	if err := compareFile(c, text); err != nil {
		return err
	}
	buf, intact := vk.Guarded(text) // the front part of a larger buffer of the caller's, overwritten once the parser has returned
	parsed := gff.Parse(buf)
	if err := intact(); err != nil {
		return fmt.Errorf("Parse(Build(x)): %v", err)
	}
	vk.Scribble(buf)
	if err := compare("Parse(Build(x))", c, parsed); err != nil {
		return err
	}
	// the record read belongs to the caller: written into, the same text reads again to what it says
	gbk.Vandalise(&parsed)
	if err := compare("Parse(Build(x)), a second time, after the caller had written into the first result", c, gff.Parse(append([]byte{}, text...))); err != nil {
		return err
	}
	if again := gff.Build(x); string(again) != string(text) {
		return vk.Errf("Build(x) twice gives different text")
	}
	p := filepath.Join(vk.WorkDir(), "x.gff")
	defer os.Remove(p)
	vk.StaleFile(p, 2*len(text)+500)
	vk.AlternateTempDir(func() { gff.Write(x, p) })
	if err := compare("Read(Write(x))", c, gff.Read(p)); err != nil {
		return err
	}
	// writing what was read gives the same text again
	if t2 := gff.Build(gff.Parse(text)); string(t2) != string(text) {
		return vk.Errf("Build(Parse(Build(x))) differs from Build(x)")
	}
	return nil
}

func nonTrivial(c Case) bool { return len(c.Seq.String()) >= 71 && len(c.Features) >= 1 }

func labels(c Case) []string {
	n := len(c.Seq.String())
	l := []string{"kind:" + c.Kind, fmt.Sprintf("len mod 70 = %d", n%70)}
	if c.RegionStart != 1 {
		l = append(l, "region start > 1")
	}
	for _, f := range c.Features {
		if f.Start == 1 {
			l = append(l, "feature at first base")
		}
		if f.End == n {
			l = append(l, "feature at last base")
		}
		if f.Start == f.End {
			l = append(l, "single-base feature")
		}
	}
	if len(c.Features) == 0 {
		l = append(l, "no features")
	}
	return dedupe(l)
}

func dedupe(l []string) []string {
	seen := map[string]bool{}
	var out []string
	for _, x := range l {
		if !seen[x] {
			seen[x] = true
			out = append(out, x)
		}
	}
	return out
}

func sample(c Case) any {
	s := c.Seq.String()
	if len(s) > 40 {
		s = fmt.Sprintf("%s…(%d)", s[:40], len(s))
	}
	feats := append([]Feat{}, c.Features...)
	for i, f := range feats {
		attrs := map[string]string{}
		for k, v := range f.Attrs {
			if len(v) > 80 {
				v = fmt.Sprintf("%s…(%d bytes)", v[:60], len(v))
			}
			attrs[k] = v
		}
		feats[i].Attrs = attrs
	}
	return map[string]any{"kind": c.Kind, "region": fmt.Sprintf("%s %d %d", c.Name, c.RegionStart, c.regionEnd()), "sequence": s, "features": feats, "wrap": c.Wrap, "directives": c.Directives}
}

var fieldGen = rapid.OneOf(
	rapid.StringMatching(`[A-Za-z0-9_.:|-]{1,12}`),
	rapid.StringMatching(`[ -:<>-~]{1,16}`), // printable ASCII without ';' and '='
	rapid.SampledFrom(vk.Placeholders),      // "unknown", ".", "NaN", "0" ...: text like any other
)

// seqids: the characters the GFF3 specification allows unescaped in column 1 ([a-zA-Z0-9.:^*$@!+_?-|]);
// in particular a seqid cannot start with '#' (the line would be a directive or comment by definition)
var seqidGen = rapid.StringMatching(`[a-zA-Z0-9.:^*$@!+_?|-]{1,20}`)

func drawFeature(t *rapid.T, i, n int, seqid string) Feat {
	f := Feat{Seqid: seqid}
	if rapid.IntRange(0, 4).Draw(t, fmt.Sprintf("f%d_own_seqid", i)) == 0 {
		f.Seqid = seqidGen.Draw(t, fmt.Sprintf("f%d_seqid", i))
	}
	f.Source = fieldGen.Draw(t, fmt.Sprintf("f%d_source", i))
	f.Type = fieldGen.Draw(t, fmt.Sprintf("f%d_type", i))
	f.Score = rapid.OneOf(rapid.SampledFrom([]string{".", "0", "0.5", "1e-10", "42"}), fieldGen).Draw(t, fmt.Sprintf("f%d_score", i))
	f.Strand = rapid.SampledFrom([]string{"+", "-", ".", "?"}).Draw(t, fmt.Sprintf("f%d_strand", i))
	f.Phase = rapid.SampledFrom([]string{".", "0", "1", "2"}).Draw(t, fmt.Sprintf("f%d_phase", i))
	switch rapid.IntRange(0, 5).Draw(t, fmt.Sprintf("f%d_where", i)) {
	case 0:
		f.Start, f.End = 1, n
	case 1:
		f.Start, f.End = 1, rapid.IntRange(1, n).Draw(t, fmt.Sprintf("f%d_end", i))
	case 2:
		f.Start, f.End = rapid.IntRange(1, n).Draw(t, fmt.Sprintf("f%d_start", i)), n
	default:
		a := rapid.IntRange(1, n).Draw(t, fmt.Sprintf("f%d_start", i))
		f.Start, f.End = a, rapid.IntRange(a, n).Draw(t, fmt.Sprintf("f%d_end", i))
	}
	na := rapid.IntRange(1, 6).Draw(t, fmt.Sprintf("f%d_n_attrs", i))
	f.Attrs = map[string]string{}
	for len(f.Attrs) < na {
		k := fieldGen.Draw(t, fmt.Sprintf("f%d_attr_key", i))
		for _, taken := f.Attrs[k]; taken; _, taken = f.Attrs[k] {
			k += "x" // distinct by construction
		}
		v := ""
		if rapid.IntRange(0, 6).Draw(t, fmt.Sprintf("f%d_attr_empty", i)) != 0 {
			v = fieldGen.Draw(t, fmt.Sprintf("f%d_attr_value", i))
			// field text of any length (a Note copied from a paper's abstract, a list of cross references): the
			// feature's line then exceeds the usual fixed line buffers of 4 KiB and 64 KiB
			if rapid.IntRange(0, 59).Draw(t, fmt.Sprintf("f%d_attr_long", i)) == 0 {
				v = strings.Repeat(v+",", rapid.SampledFrom([]int{4000, 4100, 9000, 66000, 140000}).Draw(t, fmt.Sprintf("f%d_attr_len", i))/(len(v)+1)+1)
			}
		}
		f.Attrs[k] = v
	}
	return f
}

func drawCase(t *rapid.T, kind string) Case {
	c := Case{Kind: kind, Name: seqidGen.Draw(t, "region_name"), RegionStart: 1}
	if rapid.IntRange(0, 2).Draw(t, "region_offset") == 0 {
		c.RegionStart = rapid.IntRange(2, 5000000).Draw(t, "region_start")
	}
	// lengths: many hit the interesting residues modulo 70 exactly
	var n int
	switch rapid.IntRange(0, 3).Draw(t, "len_class") {
	case 0:
		n = 70*rapid.IntRange(0, 70).Draw(t, "len_lines") + rapid.SampledFrom([]int{0, 1, 2, 69}).Draw(t, "len_rest")
	default:
		n = rapid.IntRange(1, 5000).Draw(t, "len")
	}
	n = max(1, min(5000, n))
	alpha := rapid.SampledFrom([]string{"ACGT", "acgt", "ACGTNacgtn"}).Draw(t, "alphabet")
	if n > 48 {
		c.Seq = vk.SeqSpec{Fill: rapid.Uint64().Draw(t, "seq_fill"), N: n, Alpha: alpha}
	} else {
		c.Seq = vk.SeqSpec{Lit: vk.Fill(rapid.Uint64().Draw(t, "seq_fill"), n, alpha)}
	}
	nf := rapid.IntRange(0, 30).Draw(t, "n_features")
	if rapid.Bool().Draw(t, "few_features") {
		nf = min(nf, 3)
	}
	for i := 0; i < nf; i++ {
		c.Features = append(c.Features, drawFeature(t, i, n, c.Name))
	}
	if rapid.IntRange(0, 5).Draw(t, "region_end_apart") == 0 {
		switch rapid.IntRange(0, 2).Draw(t, "region_end_kind") {
		case 0: // a multiple of the FASTA line width inside the sequence
			if n > 70 {
				c.RegionStart, c.RegionEnd = 1, 70*rapid.IntRange(1, (n-1)/70).Draw(t, "region_end_lines")
			}
		case 1:
			c.RegionEnd = c.RegionStart + rapid.IntRange(0, n+200).Draw(t, "region_end_any")
		default:
			c.RegionEnd = c.RegionStart + n - 1 + rapid.SampledFrom([]int{-2, -1, 1, 2, 70}).Draw(t, "region_end_near")
			if c.RegionEnd < c.RegionStart {
				c.RegionEnd = 0
			}
		}
	}
	if kind == "independent" {
		c.Wrap = rapid.OneOf(rapid.IntRange(1, 120), rapid.SampledFrom([]int{0, 1, 2, 60, 70, 80})).Draw(t, "wrap")
		nd := rapid.IntRange(0, 2).Draw(t, "n_directives")
		for i := 0; i < nd; i++ {
			c.Directives = append(c.Directives, rapid.SampledFrom([]string{"species https://www.ncbi.nlm.nih.gov/Taxonomy/Browser/wwwtax.cgi?id=511145", "feature-ontology so.obo", "genome-build NCBI B36", "#extra"}).Draw(t, "directive"))
		}
		c.Terminator = rapid.Bool().Draw(t, "terminator")
		c.FinalNewline = rapid.Bool().Draw(t, "final_newline")
	}
	return c
}

var subRoundtrip = vk.Register(&vk.Sub[Case]{Name: "roundtrip", Gen: func(t *rapid.T) Case { return drawCase(t, "roundtrip") }, Check: check, NonTrivial: nonTrivial, Labels: labels, Sample: sample})
var subIndependent = vk.Register(&vk.Sub[Case]{Name: "independent", Gen: func(t *rapid.T) Case { return drawCase(t, "independent") }, Check: check, NonTrivial: nonTrivial, Labels: labels, Sample: sample})
var subLengths = vk.Register(&vk.Sub[Case]{Name: "lengths", Check: check, NonTrivial: nonTrivial, Sample: sample})

func TestSub_roundtrip(t *testing.T)   { vk.RunRapid(t, subRoundtrip) }
func TestSub_independent(t *testing.T) { vk.RunRapid(t, subIndependent) }

// lengths: every sequence length 1..350 (every residue class modulo 70 five times), region
// starting at 1 and at 101, one feature over the whole sequence and one over its last base,
// through Build->Parse and through the independent writer at widths 1, 2, 60 and 70.
func TestSub_lengths(t *testing.T) {
	maxLen := vk.Pick(350, 1050)
	vk.RunEnum(t, subLengths, fmt.Sprintf("every sequence length 1..%d x region start {1,101} x {Build->Parse, independent writer at wrap 1, 2, 60, 70}", maxLen), true, func(yield func(Case) bool) {
		for n := 1; n <= maxLen; n++ {
			for _, rs := range []int{1, 101} {
				base := Case{Kind: "roundtrip", Name: "chr1", RegionStart: rs, Seq: vk.SeqSpec{Lit: vk.Fill(uint64(n), n, "ACGT")},
					Features: []Feat{
						{Seqid: "chr1", Source: "src", Type: "region", Start: 1, End: n, Score: ".", Strand: "+", Phase: ".", Attrs: map[string]string{"ID": "whole"}},
						{Seqid: "chr1", Source: "src", Type: "base", Start: n, End: n, Score: ".", Strand: "-", Phase: "0", Attrs: map[string]string{"ID": "last", "Note": "a b"}},
					}}
				if !yield(base) {
					return
				}
				for _, w := range []int{1, 2, 60, 70} {
					ind := base
					ind.Kind, ind.Wrap, ind.Terminator, ind.FinalNewline = "independent", w, n%2 == 0, n%3 != 0
					if !yield(ind) {
						return
					}
				}
			}
		}
	})
}

func TestReplay(t *testing.T) { vk.Replay(t) }

// native coverage-guided fuzzing over the same generator and oracle (thorough tier)
var subFuzz = vk.Register(&vk.Sub[Case]{Name: "roundtrip_fuzz", Gen: func(t *rapid.T) Case { return drawCase(t, "roundtrip") }, Check: check})

func FuzzSub_roundtrip_fuzz(f *testing.F) { vk.RunFuzz(f, subFuzz) }
