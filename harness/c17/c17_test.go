// C17 — De Bruijn barcodes are unique, non-overlapping in n-mers and ban-free.
package c17

import (
	"fmt"
	"strings"
	"testing"

	"github.com/TimothyStiles/poly/primers"
	"pgregory.net/rapid"
	"verifharness/internal/ref"
	"verifharness/internal/vk"
)

type Filter struct {
	Kind string  `json:"kind"` // gc | homopolymer | noprefix | notcontains
	Lo   float64 `json:"lo,omitempty"`
	Hi   float64 `json:"hi,omitempty"`
	Max  int     `json:"max,omitempty"`
	Word string  `json:"word,omitempty"`
}

func (f Filter) Accept(s string) bool {
	switch f.Kind {
	case "gc":
		gc := float64(strings.Count(s, "G")+strings.Count(s, "C")) / float64(max(1, len(s)))
		return gc >= f.Lo && gc <= f.Hi
	case "homopolymer":
		run := 0
		for i := 0; i < len(s); i++ {
			if i > 0 && s[i] == s[i-1] {
				run++
			} else {
				run = 1
			}
			if run > f.Max {
				return false
			}
		}
		return true
	case "noprefix":
		return !strings.HasPrefix(s, f.Word)
	case "notcontains":
		return !strings.Contains(s, f.Word)
	}
	return true
}

type Case struct {
	Kind    string   `json:"kind"` // sequence | barcodes
	Order   int      `json:"order"`
	Length  int      `json:"length,omitempty"`
	Bans    []string `json:"bans,omitempty"`
	Filters []Filter `json:"filters,omitempty"`
}

func code(b byte) int {
	switch b {
	case 'A':
		return 0
	case 'C':
		return 1
	case 'G':
		return 2
	case 'T':
		return 3
	}
	return -1
}

// checkDeBruijn: length 4^n+n-1 and every n-letter word exactly once.
func checkDeBruijn(seq string, n int) error {
	total := 1 << (2 * uint(n))
	if len(seq) != total+n-1 {
		return vk.Errf("De Bruijn sequence of order %d has length %d, want 4^n+n-1 = %d", n, len(seq), total+n-1)
	}
	seen := make([]uint64, (total+63)/64)
	mask := total - 1
	w, valid := 0, 0
	for i := 0; i < len(seq); i++ {
		c := code(seq[i])
		if c < 0 {
			return vk.Errf("De Bruijn sequence of order %d contains the letter %q at %d", n, seq[i], i)
		}
		w = ((w << 2) | c) & mask
		valid++
		if valid >= n {
			if seen[w/64]&(1<<(uint(w)%64)) != 0 {
				return vk.Errf("De Bruijn sequence of order %d contains the word %q twice (second time at %d)", n, seq[i-n+1:i+1], i-n+1)
			}
			seen[w/64] |= 1 << (uint(w) % 64)
		}
	}
	// 4^n windows, all distinct => every word exactly once
	return nil
}

func check(c Case) error {
	seq := primers.NucleobaseDeBruijnSequence(c.Order)
	if err := checkDeBruijn(seq, c.Order); err != nil {
		return err
	}
	if c.Kind == "sequence" {
		return nil
	}
	funcs := make([]func(string) bool, len(c.Filters))
	for i, f := range c.Filters {
		funcs[i] = f.Accept
	}
	past()
	var got []string
	if len(c.Bans) == 0 && len(c.Filters) == 0 {
		got = primers.CreateBarcodes(c.Length, c.Order)
		viaGeneral := primers.CreateBarcodesWithBannedSequences(c.Length, c.Order, []string{}, []func(string) bool{})
		if strings.Join(got, ",") != strings.Join(viaGeneral, ",") {
			return vk.Errf("CreateBarcodes(%d,%d) differs from CreateBarcodesWithBannedSequences without constraints", c.Length, c.Order)
		}
	} else {
		// related calls first, results discarded: the same letters banned as one sequence, as other pieces, in
		// another order - the judged call's result must depend on its own arguments only
		// ... and the same numbers and bans with functions of the same code that hold other values (a function is
		// code plus what it captured: here every filter accepts everything)
		otherFunctions := func() {
			if len(funcs) == 0 || c.Order > 7 {
				return
			}
			relaxed := make([]func(string) bool, len(funcs))
			for i := range relaxed {
				relaxed[i] = Filter{Kind: "accept everything"}.Accept
			}
			defer func() { _ = recover() }()
			_ = primers.CreateBarcodesWithBannedSequences(c.Length, c.Order, c.Bans, relaxed)
		}
		functionsLast := (len(c.Bans)+c.Length+c.Order)%2 == 0
		if !functionsLast {
			otherFunctions()
		}
		if len(c.Bans) > 0 && c.Order <= 7 {
			joined := strings.Join(c.Bans, "")
			var variants [][]string
			if len(joined) >= 4 {
				variants = append(variants, []string{joined[:2], joined[2:]}, []string{joined[:len(joined)/2], joined[len(joined)/2:]})
			}
			if len(c.Bans) >= 2 {
				rev := append([]string{}, c.Bans...)
				for i, j := 0, len(rev)-1; i < j; i, j = i+1, j-1 {
					rev[i], rev[j] = rev[j], rev[i]
				}
				variants = append(variants, rev, c.Bans[:len(c.Bans)-1])
			}
			variants = append(variants, []string{joined}) // last, i.e. directly before the judged call: one long ban instead of its pieces
			for _, v := range variants {
				func() {
					defer func() { _ = recover() }()
					_ = primers.CreateBarcodesWithBannedSequences(c.Length, c.Order, v, nil)
				}()
			}
			// ... and, in every second case directly before the judged call, the very same ban list with other barcode
			// lengths (the shortest the order allows; one shorter than the longest ban) and with the next order
			if (len(joined)+c.Length)%2 == 0 {
				longest := 0
				for _, b := range c.Bans {
					longest = max(longest, len(b))
				}
				for _, lo := range [][2]int{{c.Order + 1, min(c.Order+1, 7)}, {max(c.Order, longest-1), c.Order}, {c.Order, c.Order}} {
					func() {
						defer func() { _ = recover() }()
						_ = primers.CreateBarcodesWithBannedSequences(lo[0], lo[1], c.Bans, nil)
					}()
				}
			}
		}
		if functionsLast {
			otherFunctions()
		}
		got = primers.CreateBarcodesWithBannedSequences(c.Length, c.Order, c.Bans, funcs)
	}
	return validateBarcodes(c, seq, got, funcs, true)
}

// validateBarcodes judges one barcode list; with again set it then writes into the list (it belongs to the caller:
// filtered in place, sorted, elements overwritten), asks for the same list once more and judges that one too.
func validateBarcodes(c Case, seq string, got []string, funcs []func(string) bool, again bool) error {
	words := map[string]int{}
	for i, b := range got {
		if len(b) != c.Length {
			return vk.Errf("barcode %d %q has length %d, requested %d (order %d, bans %v, filters %+v)", i, b, len(b), c.Length, c.Order, c.Bans, c.Filters)
		}
		if !strings.Contains(seq, b) {
			return vk.Errf("barcode %d %q is not a substring of the order-%d De Bruijn sequence", i, b, c.Order)
		}
		for _, ban := range c.Bans {
			if strings.Contains(b, ban) {
				return vk.Errf("barcode %d %q contains the banned sequence %q (length %d, order %d, bans %v, filters %+v)", i, b, ban, c.Length, c.Order, c.Bans, c.Filters)
			}
			if rc := ref.RevComp(ban); strings.Contains(b, rc) {
				return vk.Errf("barcode %d %q contains %q, the reverse complement of the banned sequence %q (length %d, order %d, bans %v, filters %+v)", i, b, rc, ban, c.Length, c.Order, c.Bans, c.Filters)
			}
		}
		for _, f := range c.Filters {
			if !f.Accept(b) {
				return vk.Errf("barcode %d %q is rejected by filter %+v (length %d, order %d, bans %v, filters %+v)", i, b, f, c.Length, c.Order, c.Bans, c.Filters)
			}
		}
		for k := 0; k+c.Order <= len(b); k++ {
			w := b[k : k+c.Order]
			if j, dup := words[w]; dup && j != i {
				return vk.Errf("barcodes %d %q and %d %q share the %d-letter word %q", j, got[j], i, b, c.Order, w)
			} else if dup {
				return vk.Errf("barcode %d %q contains the word %q twice", i, b, w)
			}
			words[w] = i
		}
	}
	if again && len(got) > 0 {
		for i := range got {
			got[i] = got[0]
		}
		var second []string
		if len(c.Bans) == 0 && len(c.Filters) == 0 {
			second = primers.CreateBarcodes(c.Length, c.Order)
		} else {
			second = primers.CreateBarcodesWithBannedSequences(c.Length, c.Order, c.Bans, funcs)
		}
		if err := validateBarcodes(c, seq, second, funcs, false); err != nil {
			return fmt.Errorf("the same call a second time, after the caller had overwritten the list the first returned: %v", err)
		}
		// kept by the caller while other lists are made (vk.Hold): letter for letter what it was when it was returned
		if len(second) <= 5000 {
			was := make([]string, len(second))
			for i, b := range second {
				was[i] = strings.Clone(b)
			}
			vk.Hold(fmt.Sprintf("the barcode list of length %d, order %d", c.Length, c.Order), func() error {
				for i := range was {
					if second[i] != was[i] {
						return vk.Errf("barcode %d was %q and is now %q", i, was[i], second[i])
					}
				}
				return nil
			})
		}
	}
	return nil
}

// shifted reports whether the constraints changed the list (a shift was triggered).
func shifted(c Case) bool {
	if c.Kind != "barcodes" || len(c.Bans)+len(c.Filters) == 0 {
		return false
	}
	funcs := make([]func(string) bool, len(c.Filters))
	for i, f := range c.Filters {
		funcs[i] = f.Accept
	}
	a := primers.CreateBarcodes(c.Length, c.Order)
	b := primers.CreateBarcodesWithBannedSequences(c.Length, c.Order, c.Bans, funcs)
	return strings.Join(a, ",") != strings.Join(b, ",")
}

func nonTrivial(c Case) bool {
	if c.Kind == "sequence" {
		return c.Order >= 2
	}
	return len(c.Bans)+len(c.Filters) >= 2 && shifted(c)
}

func labels(c Case) []string {
	if c.Kind == "sequence" {
		return []string{fmt.Sprintf("order:%d", c.Order)}
	}
	l := []string{fmt.Sprintf("bans:%d", len(c.Bans)), fmt.Sprintf("filters:%d", len(c.Filters))}
	if shifted(c) {
		l = append(l, "constraints-triggered-a-shift")
	}
	for _, b := range c.Bans {
		if b == ref.RevComp(b) {
			l = append(l, "palindromic-ban")
			break
		}
	}
	return l
}

var subSequence = vk.Register(&vk.Sub[Case]{Name: "sequence", Check: check, NonTrivial: nonTrivial})
var subBarcodes = vk.Register(&vk.Sub[Case]{Name: "barcodes", Gen: gen, Check: check, NonTrivial: nonTrivial, Labels: labels})
var subAdversarial = vk.Register(&vk.Sub[Case]{Name: "adversarial", Gen: genAdversarial, Check: check, NonTrivial: nonTrivial, Labels: labels})

func TestSub_sequence(t *testing.T) {
	maxOrder := vk.Pick(9, 11)
	vk.RunEnum(t, subSequence, fmt.Sprintf("De Bruijn sequences of orders 1..%d (every n-mer counted in a 4^n-bit map); unconstrained barcode lists for orders 2..8 x lengths n..60; each homopolymer of n and of n-1 letters as the only ban x orders 2..8 x lengths n, n+1, 20, 58", maxOrder), true, func(yield func(Case) bool) {
		for n := 1; n <= maxOrder; n++ {
			if !yield(Case{Kind: "sequence", Order: n}) {
				return
			}
		}
		for n := 2; n <= 8; n++ {
			for l := n; l <= 60; l++ {
				if !yield(Case{Kind: "barcodes", Order: n, Length: l}) {
					return
				}
			}
		}
		// the four homopolymers as bans - the words at the ends of every numbering of words - at the longest length at
		// which the sequence of that order contains them, and one shorter
		for n := 2; n <= 8; n++ {
			for _, letter := range "ACGT" {
				for _, k := range []int{n, n - 1} {
					for _, l := range []int{n, n + 1, 20, 58} {
						if k >= 2 && !yield(Case{Kind: "barcodes", Order: n, Length: l, Bans: []string{strings.Repeat(string(letter), k)}}) {
							return
						}
					}
				}
			}
		}
	})
}

// past: before the first judged barcode list of a process, every word of 2..4 letters has been a banned sequence once
// (the bans the cases to come will use again and again), and after that several thousand distinct 8-letter words (quick:
// 1000 calls with five each; thorough: 13000 calls - nearly every 8-letter word there is).
func past() {
	var short []string
	vk.EachString("ACGT", 2, 4, func(w string) bool { short = append(short, w); return true })
	word8 := func(k int) string {
		k = (k*40503 + 7) & 0xffff // odd multiplier: a permutation of the 65536 eight-letter words
		b := make([]byte, 8)
		for i := range b {
			b[i] = "ACGT"[k&3]
			k >>= 2
		}
		return string(b)
	}
	vk.Past("banned sequences", (len(short)+4)/5, vk.Pick(1000, 13000), func(i int, probe bool) {
		defer func() { _ = recover() }()
		var bans []string
		for j := 0; j < 5; j++ {
			if probe {
				bans = append(bans, short[(5*i+j)%len(short)])
			} else {
				bans = append(bans, word8(5*i+j))
			}
		}
		_ = primers.CreateBarcodesWithBannedSequences(8, 2+i%2, bans, nil)
	})
}

func genWord(t *rapid.T, name string, lo, hi int) string {
	n := rapid.IntRange(lo, hi).Draw(t, name+"_len")
	b := make([]byte, n)
	for i := range b {
		b[i] = "ATGC"[rapid.IntRange(0, 3).Draw(t, name)]
	}
	return string(b)
}

func genFilter(t *rapid.T, i int) Filter {
	name := fmt.Sprintf("filter%d", i)
	switch rapid.SampledFrom([]string{"gc", "homopolymer", "noprefix", "notcontains"}).Draw(t, name+"_kind") {
	case "gc":
		lo := rapid.Float64Range(0, 0.5).Draw(t, name+"_lo")
		return Filter{Kind: "gc", Lo: lo, Hi: lo + rapid.Float64Range(0.2, 0.6).Draw(t, name+"_width")}
	case "homopolymer":
		return Filter{Kind: "homopolymer", Max: rapid.IntRange(1, 4).Draw(t, name+"_max")}
	case "noprefix":
		return Filter{Kind: "noprefix", Word: genWord(t, name+"_word", 1, 3)}
	default:
		return Filter{Kind: "notcontains", Word: genWord(t, name+"_word", 2, 4)}
	}
}

func gen(t *rapid.T) Case {
	c := Case{Kind: "barcodes", Order: rapid.IntRange(2, vk.Pick(6, 8)).Draw(t, "order")}
	c.Length = rapid.IntRange(c.Order, 60).Draw(t, "length")
	nb := rapid.IntRange(0, 5).Draw(t, "n_bans")
	for i := 0; i < nb; i++ {
		c.Bans = append(c.Bans, genWord(t, fmt.Sprintf("ban%d", i), 2, 8))
		if rapid.IntRange(0, 7).Draw(t, fmt.Sprintf("ban%d_homopolymer", i)) == 0 {
			c.Bans[i] = strings.Repeat(c.Bans[i][:1], len(c.Bans[i]))
		}
	}
	nf := rapid.IntRange(0, 3).Draw(t, "n_filters")
	for i := 0; i < nf; i++ {
		c.Filters = append(c.Filters, genFilter(t, i))
	}
	return c
}

// genAdversarial constructs bans from the windows poly would emit: a word inside an
// unconstrained window, then words (or reverse complements of words) that the one-step shift
// past it brings in.
func genAdversarial(t *rapid.T) Case {
	c := Case{Kind: "barcodes", Order: rapid.IntRange(3, vk.Pick(6, 8)).Draw(t, "order")}
	c.Length = rapid.IntRange(c.Order+1, 40).Draw(t, "length")
	seq := primers.NucleobaseDeBruijnSequence(c.Order) // only used to aim the bans; the oracle does not depend on the aim
	stride := c.Length - (c.Order - 1)
	maxWin := (len(seq) - c.Length) / stride
	win := rapid.IntRange(0, min(maxWin, 20)).Draw(t, "window")
	start := win * stride
	nb := rapid.IntRange(2, 5).Draw(t, "n_bans")
	pos := start
	for i := 0; i < nb; i++ {
		k := rapid.IntRange(2, min(6, c.Length)).Draw(t, fmt.Sprintf("ban%d_len", i))
		// a word inside the current window, or one that the shift will bring in at its right edge
		var p int
		if rapid.Bool().Draw(t, fmt.Sprintf("ban%d_inside", i)) {
			p = pos + rapid.IntRange(0, c.Length-k).Draw(t, fmt.Sprintf("ban%d_at", i))
		} else {
			p = pos + c.Length - k + rapid.IntRange(1, 3).Draw(t, fmt.Sprintf("ban%d_beyond", i))
		}
		if p+k > len(seq) {
			p = len(seq) - k
		}
		w := seq[p : p+k]
		if rapid.Bool().Draw(t, fmt.Sprintf("ban%d_as_rc", i)) {
			w = ref.RevComp(w)
		}
		c.Bans = append(c.Bans, w)
		pos = min(p+1, len(seq)-c.Length)
	}
	if rapid.Bool().Draw(t, "with_filter") {
		c.Filters = append(c.Filters, genFilter(t, 0))
	}
	if rapid.Bool().Draw(t, "shuffle") {
		c.Bans = rapid.Permutation(c.Bans).Draw(t, "ban_order")
	}
	return c
}

func TestSub_barcodes(t *testing.T)    { vk.RunRapid(t, subBarcodes) }
func TestSub_adversarial(t *testing.T) { vk.RunRapid(t, subAdversarial) }

func TestReplay(t *testing.T) { vk.Replay(t) }

// native coverage-guided fuzzing over the same generator and oracle (thorough tier)
var subNativeFuzz = vk.Register(&vk.Sub[Case]{Name: "adversarial_fuzz", Gen: genAdversarial, Check: check})

func FuzzSub_adversarial_fuzz(f *testing.F) { vk.RunFuzz(f, subNativeFuzz) }
