// C11 — reverse complement and IUPAC expansion obey nucleotide-code semantics.
package c11

import (
	"fmt"
	"sort"
	"strings"
	"testing"

	"github.com/TimothyStiles/poly/checks"
	"github.com/TimothyStiles/poly/transform"
	"github.com/TimothyStiles/poly/transform/variants"
	"pgregory.net/rapid"
	"verifharness/internal/ref"
	"verifharness/internal/vk"
)

// Case: S is the main string, B a second one for the concatenation law; Expand says whether
// the expansion clauses are evaluated (bounded to <= 4^8 variants by the generator).
type Case struct {
	S      string `json:"s"`
	B      string `json:"b"`
	Expand bool   `json:"expand"`
	// Prior: a sequence evaluated immediately before the judged calls, its results discarded
	Prior string `json:"prior,omitempty"`
}

func multisetEqual(a, b []string) bool {
	if len(a) != len(b) {
		return false
	}
	x := append([]string{}, a...)
	y := append([]string{}, b...)
	sort.Strings(x)
	sort.Strings(y)
	for i := range x {
		if x[i] != y[i] {
			return false
		}
	}
	return true
}

func check(c Case) error {
	if len(c.S) <= 3000 {
		for _, sib := range vk.Siblings(c.S) { // related inputs first, results discarded
			_ = transform.ReverseComplement(sib)
			_ = transform.Complement(sib)
			_ = checks.IsPalindromic(sib)
		}
	}
	if c.Prior != "" {
		_ = transform.ReverseComplement(c.Prior)
		_ = transform.Complement(c.Prior)
		_ = checks.IsPalindromic(c.Prior)
		_, _ = variants.AllVariantsIUPAC(c.Prior)
	}
	s := c.S
	want := ref.RevComp(s)
	got := transform.ReverseComplement(s)
	if got != want {
		return vk.Errf("ReverseComplement(%q) = %q, set-wise complement reversed is %q", s, got, want)
	}
	if len(got) != len(s) {
		return vk.Errf("ReverseComplement(%q) has length %d", s, len(got))
	}
	if comp := transform.Complement(s); comp != ref.Comp(s) {
		return vk.Errf("Complement(%q) = %q, want %q", s, comp, ref.Comp(s))
	}
	if rev := transform.Reverse(s); rev != ref.Reverse(s) {
		return vk.Errf("Reverse(%q) = %q", s, rev)
	}
	if x := transform.Reverse(transform.Complement(s)); x != got {
		return vk.Errf("Reverse(Complement(%q)) = %q but ReverseComplement = %q", s, x, got)
	}
	if back := transform.ReverseComplement(got); back != s {
		return vk.Errf("ReverseComplement twice on %q gives %q", s, back)
	}
	if ab, ba := transform.ReverseComplement(s+c.B), transform.ReverseComplement(c.B)+transform.ReverseComplement(s); ab != ba {
		return vk.Errf("rc(%q+%q) = %q but rc(b)+rc(a) = %q", s, c.B, ab, ba)
	}
	if p := checks.IsPalindromic(s); p != (s == want) {
		return vk.Errf("IsPalindromic(%q) = %v but own reverse complement is %q", s, p, want)
	}
	for i := 0; i < len(s); i++ {
		w, _ := ref.ComplementCode(s[i])
		if g := transform.ComplementBase(rune(s[i])); g != rune(w) {
			return vk.Errf("ComplementBase(%q) = %q, want %q", s[i], g, w)
		}
	}
	if c.Expand {
		// relatives the expansion has to reject (a letter that is no IUPAC code after accepted ones) and the steps of
		// building s up come first, results discarded: a call that ends in an error leaves nothing behind
		for _, sp := range vk.Spoil(s, "J!"[len(s)%2]) {
			_, _ = variants.AllVariantsIUPAC(sp)
		}
		if st := vk.Stems(s); len(st) > 0 {
			_, _ = variants.AllVariantsIUPAC(st[len(st)-1])
		}
		vs, err := variants.AllVariantsIUPAC(s)
		if err != nil {
			return vk.Errf("AllVariantsIUPAC(%q) returned error %v", s, err)
		}
		exp := ref.Expand(strings.ToUpper(s))
		if len(s) == 0 {
			// the empty product: nil, [] and [""] are all readings of "the empty sequence stands for itself"
			if len(vs) > 1 || (len(vs) == 1 && vs[0] != "") {
				return vk.Errf("AllVariantsIUPAC(\"\") = %q", vs)
			}
		} else if !multisetEqual(vs, exp) {
			return vk.Errf("AllVariantsIUPAC(%q) = %s, Cartesian product of the base sets is %s", s, clipList(vs), clipList(exp))
		}
		if len(vs) > 0 && len(vs) <= 4096 {
			// the list belongs to the caller: overwritten and reversed, the same sequence (in the other letter case)
			// expands again to the same set
			for i := range vs {
				vs[i] = "overwritten by the caller"
			}
			again, err := variants.AllVariantsIUPAC(strings.ToLower(s))
			if err != nil || (len(s) > 0 && !multisetEqual(again, exp)) {
				return vk.Errf("AllVariantsIUPAC(%q), after the caller had overwritten the list an earlier call returned for %q: %s (err %v), Cartesian product of the base sets is %s", strings.ToLower(s), s, clipList(again), err, clipList(exp))
			}
			vs = again
		}
		if len(s) > 0 {
			// expansion commutes with reverse complement
			rcVariants := make([]string, len(vs))
			for i, v := range vs {
				rcVariants[i] = transform.ReverseComplement(v)
			}
			vrc, err := variants.AllVariantsIUPAC(got)
			if err != nil {
				return vk.Errf("AllVariantsIUPAC(rc %q = %q) returned error %v", s, got, err)
			}
			if !multisetEqual(rcVariants, vrc) {
				return vk.Errf("variants(rc(%q)) = %s but rc of variants(%q) = %s", s, clipList(vrc), s, clipList(rcVariants))
			}
		}
	}
	return nil
}

// clipList shows a list of variants: all of a short one, the size, the first and the last few of a long one.
func clipList(l []string) string {
	if len(l) <= 40 {
		return fmt.Sprintf("%q", strings.Join(l, ","))
	}
	return fmt.Sprintf("[%d strings: %s, ... , %s]", len(l), strings.Join(l[:8], ","), strings.Join(l[len(l)-4:], ","))
}

func nonTrivial(c Case) bool {
	amb, lower, upper := false, false, false
	for i := 0; i < len(c.S); i++ {
		ch := c.S[i]
		if len(ref.Bases(ch)) >= 2 {
			amb = true
		}
		if ch >= 'a' && ch <= 'z' {
			lower = true
		} else {
			upper = true
		}
	}
	return amb || (lower && upper)
}

func labels(c Case) []string {
	l := []string{}
	if c.Expand {
		l = append(l, "expansion-checked")
	}
	if c.S == ref.RevComp(c.S) && len(c.S) > 0 {
		l = append(l, "palindromic")
	}
	if strings.ToUpper(c.S) != c.S && strings.ToLower(c.S) != c.S {
		l = append(l, "mixed-case")
	}
	switch n := len(c.S); {
	case n <= 5:
		l = append(l, "len<=5")
	case n <= 100:
		l = append(l, "len 6-100")
	default:
		l = append(l, "len>100")
	}
	if c.Expand && len(c.S) > 64 {
		l = append(l, "expansion-checked beyond 64 letters")
	}
	return l
}

var subEnum = vk.Register(&vk.Sub[Case]{Name: "enum", Check: check, NonTrivial: nonTrivial})
var subLengths = vk.Register(&vk.Sub[Case]{Name: "lengths", Check: check, NonTrivial: nonTrivial, Labels: labels})
var subRandom = vk.Register(&vk.Sub[Case]{Name: "random", Gen: gen, Check: check, NonTrivial: nonTrivial, Labels: labels})

const both = "ACGTRYSWKMBDHVNacgtryswkmbdhvn"

func genString(t *rapid.T, name string, maxLen int, alpha string) string {
	n := vk.DrawSize(t, name, 0, maxLen)
	if n > 64 {
		return vk.Fill(rapid.Uint64().Draw(t, name+"_fill"), n, alpha)
	}
	b := make([]byte, n)
	for i := range b {
		b[i] = alpha[rapid.IntRange(0, len(alpha)-1).Draw(t, name)]
	}
	return string(b)
}

func gen(t *rapid.T) Case {
	alpha := rapid.SampledFrom([]string{both, both, ref.IUPACCodes, "ACGT", "acgtn", "ACGTN"}).Draw(t, "alphabet")
	maxLen := 10000
	c := Case{}
	if rapid.IntRange(0, 4).Draw(t, "make_palindrome") == 0 {
		h := genString(t, "half", 60, alpha)
		c.S = h + ref.RevComp(h)
		if len(c.S) > 0 && rapid.IntRange(0, 2).Draw(t, "damage_one_case") == 0 {
			// equal to its reverse complement but for the case of one letter: not a palindrome
			b := []byte(c.S)
			b[rapid.IntRange(0, len(b)-1).Draw(t, "damaged_at")] ^= 0x20
			c.S = string(b)
		}
	} else {
		c.S = genString(t, "s", maxLen, alpha)
	}
	// one string in five holds a long run of one code in drawn letter case (a scaffold gap nnnnNNNN, a poly-A tail): what
	// is long is the stretch of one letter, not the string
	if rapid.IntRange(0, 4).Draw(t, "letter_run") == 0 {
		code := rapid.SampledFrom([]byte("NNNATCGRYSWKM")).Draw(t, "run_letter")
		n := rapid.SampledFrom([]int{8, 16, 31, 32, 33, 40, 64, 100, 255, 256, 257, 1000}).Draw(t, "run_length")
		caseBits := rapid.Uint64().Draw(t, "run_case")
		run := make([]byte, n)
		for i := range run {
			run[i] = code
			if caseBits>>(uint(i)%64)&1 == 1 {
				run[i] = code - 'A' + 'a'
			}
		}
		at := 0
		if len(c.S) > 0 {
			at = rapid.IntRange(0, len(c.S)).Draw(t, "run_at")
		}
		c.S = c.S[:at] + string(run) + c.S[at:]
	}
	c.B = genString(t, "b", 200, alpha)
	if rapid.IntRange(0, 4).Draw(t, "sparse_codes") == 0 {
		// a long, mostly concrete sequence with a few ambiguity codes anywhere in it (a degenerate codon in a long
		// oligo, SNP codes in a consensus read): the expansion stays small whatever the length
		concrete := rapid.SampledFrom([]string{"ACGT", "acgt", "ACGTacgt"}).Draw(t, "concrete_alphabet")
		b := []byte(genString(t, "long", maxLen, concrete))
		if len(b) > 0 {
			codes := "RYKMSWBDHVNrykmswbdhvn"
			prod := 1
			for k := rapid.IntRange(1, 6).Draw(t, "n_codes"); k > 0; k-- {
				code := codes[rapid.IntRange(0, len(codes)-1).Draw(t, "code")]
				if w := len(ref.Bases(code)); prod*w*len(b) <= 1000000 {
					prod *= w
					at := vk.DrawSize(t, "code_at", 0, len(b)-1)
					if rapid.Bool().Draw(t, "from_the_end") {
						at = len(b) - 1 - at
					}
					if len(ref.Bases(b[at])) == 1 {
						b[at] = code
					} else {
						prod /= w
					}
				}
			}
			c.S, c.Expand = string(b), true
			return c
		}
	}
	if rapid.IntRange(0, 199).Draw(t, "many_codes") == 0 {
		// many ambiguity codes at once: 12..18 two-fold codes among a few concrete letters (4096 .. 262144 variants)
		n := rapid.SampledFrom([]int{12, 14, 16, 17, 17, 18}).Draw(t, "n_twofold")
		var b []byte
		for i := 0; i < n; i++ {
			b = append(b, "RYKMSWrykmsw"[rapid.IntRange(0, 11).Draw(t, "twofold")])
			if rapid.IntRange(0, 2).Draw(t, "spacer") == 0 {
				b = append(b, "ACGTacgt"[rapid.IntRange(0, 7).Draw(t, "spacer_letter")])
			}
		}
		c.S, c.Expand = string(b), true
		return c
	}
	// expansion only when the product has at most 4^8 members
	prod := 1
	for i := 0; i < len(c.S) && prod <= 65536; i++ {
		prod *= len(ref.Bases(c.S[i]))
	}
	c.Expand = prod <= 65536 && len(c.S) <= 40
	return c
}

func TestSub_random(t *testing.T) { vk.RunRapid(t, subRandom) }

var subCollisions = vk.Register(&vk.Sub[Case]{Name: "collisions", Check: check, NonTrivial: func(Case) bool { return true }})

// TestSub_collisions: the two sequences of every checksum-colliding pair (vk.CollidingPairs) one directly after the other.
func TestSub_collisions(t *testing.T) {
	vk.RunEnum(t, subCollisions, "every checksum-colliding pair of 30-mers x both orders x {upper, lower case}", true, func(yield func(Case) bool) {
		for _, pr := range vk.CollidingPairs() {
			for _, o := range [][2]string{{pr.A, pr.B}, {pr.B, pr.A}, {strings.ToLower(pr.A), strings.ToLower(pr.B)}} {
				if !yield(Case{S: o[1], B: "ac", Prior: o[0], Expand: true}) {
					return
				}
			}
		}
	})
}

func TestSub_enum(t *testing.T) {
	upperMax := vk.Pick(4, 5)
	mixedMax := vk.Pick(2, 3)
	space := "all strings over the 15 upper-case IUPAC codes up to length " + string(rune('0'+upperMax)) + " and over both cases (30 letters) up to length " + string(rune('0'+mixedMax)) + ", each paired with 3 second operands"
	seconds := []string{"", "K", "ayB"}
	vk.RunEnum(t, subEnum, space, true, func(yield func(Case) bool) {
		enum := func(alpha string, maxLen int, skipUpper bool) bool {
			for n := 0; n <= maxLen; n++ {
				idx := make([]int, n)
				buf := make([]byte, n)
				for {
					for i := range buf {
						buf[i] = alpha[idx[i]]
					}
					s := string(buf)
					if !(skipUpper && strings.ToUpper(s) == s) {
						for _, b := range seconds {
							if !yield(Case{S: s, B: b, Expand: true}) {
								return false
							}
						}
					}
					p := n - 1
					for p >= 0 {
						idx[p]++
						if idx[p] < len(alpha) {
							break
						}
						idx[p] = 0
						p--
					}
					if p < 0 {
						break
					}
				}
			}
			return true
		}
		if !enum(ref.IUPACCodes, upperMax, false) {
			return
		}
		enum(both, mixedMax, true)
	})
}

// TestSub_lengths evaluates every clause on one string of every length 0..10^4 (prefixes of one
// mixed-case filler string that depends on VERIF_SEED), so that no length in the quantified range
// is left to chance.
func TestSub_lengths(t *testing.T) {
	base := vk.Fill(vk.Seed(), 10000, both)
	vk.RunEnum(t, subLengths, "one mixed-case string of every length 0..10000", true, func(yield func(Case) bool) {
		for n := 0; n <= len(base); n++ {
			off := n % 89
			if !yield(Case{S: base[:n], B: base[off : off+n%17]}) {
				return
			}
		}
	})
}

// ---------------------------------------------------------------------------------------
// uracil: the property's quantifier names U ("excluded from the self-inverse clause because it complements to A"): it is
// a letter of the strings the other clauses speak about. Judged here with a reference of its own: U complements to A
// (u to a), every other letter set-wise as above; every clause but the self-inverse one and the expansion.

type UCase struct {
	S string `json:"s"`
	B string `json:"b"`
}

func rcU(s string) string {
	out := make([]byte, len(s))
	for i := 0; i < len(s); i++ {
		switch s[i] {
		case 'U':
			out[len(s)-1-i] = 'A'
		case 'u':
			out[len(s)-1-i] = 'a'
		default:
			c, ok := ref.ComplementCode(s[i])
			if !ok {
				panic("rcU: not a nucleotide code: " + string(s[i]))
			}
			out[len(s)-1-i] = c
		}
	}
	return string(out)
}

func checkU(c UCase) error {
	s := c.S
	want := rcU(s)
	if got := transform.ReverseComplement(s); got != want {
		return vk.Errf("ReverseComplement(%q) = %q, complement (U to A) reversed is %q", s, got, want)
	}
	if x := transform.Reverse(transform.Complement(s)); x != want {
		return vk.Errf("Reverse(Complement(%q)) = %q but the reverse complement is %q", s, x, want)
	}
	if ab, ba := transform.ReverseComplement(s+c.B), transform.ReverseComplement(c.B)+transform.ReverseComplement(s); ab != ba || ab != rcU(s+c.B) {
		return vk.Errf("rc(%q+%q) = %q, rc(b)+rc(a) = %q, reference %q", s, c.B, ab, ba, rcU(s+c.B))
	}
	if p := checks.IsPalindromic(s); p != (s == want) {
		return vk.Errf("IsPalindromic(%q) = %v but its reverse complement is %q", s, p, want)
	}
	return nil
}

var subUracil = vk.Register(&vk.Sub[UCase]{Name: "uracil", Check: checkU, NonTrivial: func(c UCase) bool { return strings.ContainsAny(c.S, "Uu") }})

func TestSub_uracil(t *testing.T) {
	space := "all strings over the 15 upper-case codes and U up to length 3, over both cases (32 letters) up to length 2, and every palindrome h+rc(h) over ACGT with |h| <= 4 in which any subset of its T (upper case) or of its t (lower case) is written as U / u; each paired with 2 second operands"
	vk.RunEnum(t, subUracil, space, true, func(yield func(UCase) bool) {
		each := func(s string) bool {
			return yield(UCase{S: s, B: ""}) && yield(UCase{S: s, B: "uAy"})
		}
		if !vk.EachString(ref.IUPACCodes+"U", 0, 3, each) || !vk.EachString(both+"Uu", 0, 2, each) {
			return
		}
		vk.EachString("ACGT", 1, 4, func(h string) bool {
			for _, p := range []string{h + ref.RevComp(h), strings.ToLower(h + ref.RevComp(h))} {
				var ts []int
				for i := 0; i < len(p); i++ {
					if p[i] == 'T' || p[i] == 't' {
						ts = append(ts, i)
					}
				}
				for mask := 1; mask < 1<<len(ts); mask++ {
					b := []byte(p)
					for k, at := range ts {
						if mask>>k&1 == 1 {
							b[at] += 'U' - 'T'
						}
					}
					if !each(string(b)) {
						return false
					}
				}
			}
			return true
		})
	})
}

func TestReplay(t *testing.T) { vk.Replay(t) }
