//go:build verif

// C02 — feature sequences follow INSDC location semantics for every location.
package c02

import (
	"fmt"
	"strings"
	"testing"

	"github.com/TimothyStiles/poly"
	"github.com/TimothyStiles/poly/io/genbank"
	"pgregory.net/rapid"
	"verifharness/internal/gbk"
	"verifharness/internal/insdc"
	"verifharness/internal/ref"
	"verifharness/internal/vk"
)

const knownWriter = "K-C02-1" // BuildLocationString writes the 3' partial marker after the number (n..m>)

type Case struct {
	Parent vk.SeqSpec `json:"parent"`
	Loc    insdc.Node `json:"location"`
	// InRecord: additionally take the public route - the location text inside a GenBank record through genbank.Parse
	InRecord bool `json:"in_record,omitempty"`
	// WriterOnly / NoExclusion are used by the known-finding witness
	NoExclusion bool `json:"no_exclusion,omitempty"`
}

func sameMarkers(a, b []insdc.Marker, coords bool) bool {
	if len(a) != len(b) {
		return false
	}
	for i := range a {
		if a[i].P5 != b[i].P5 || a[i].P3 != b[i].P3 {
			return false
		}
		if coords && (a[i].A != b[i].A || a[i].B != b[i].B) {
			return false
		}
	}
	return true
}

// frames: what the parent record says about itself besides its bases. None of it changes what a location denotes.
var frames = []struct {
	what string
	set  func(*poly.Sequence)
}{
	{"a bare parent", func(*poly.Sequence) {}},
	{"a parent marked circular", func(s *poly.Sequence) {
		s.Meta.Locus.Circular, s.Meta.Locus.MoleculeType, s.Meta.Locus.Name = true, "DNA", "verif"
		s.Meta.Locus.SequenceLength = fmt.Sprint(len(s.Sequence))
	}},
	{"a parent marked linear mRNA", func(s *poly.Sequence) {
		s.Meta.Locus.Linear, s.Meta.Locus.MoleculeType = true, "mRNA"
	}},
}

// featureSequenceOnce: the feature's sequence on a bare parent.
func featureSequenceOnce(parent string, loc poly.Location) (s string, err error) {
	defer func() {
		if r := recover(); r != nil {
			err = fmt.Errorf("panic: %v", r)
		}
	}()
	seq := poly.Sequence{Sequence: parent}
	seq.AddFeature(&poly.Feature{Type: "misc_feature", SequenceLocation: loc})
	return seq.Features[0].GetSequence(), nil
}

// featureSequence: the feature's sequence under every frame; they must agree (the first is returned).
func featureSequence(parent string, loc poly.Location) (s string, err error) {
	defer func() {
		if r := recover(); r != nil {
			err = fmt.Errorf("panic: %v", r)
		}
	}()
	for i, fr := range frames {
		seq := poly.Sequence{Sequence: parent}
		fr.set(&seq)
		seq.AddFeature(&poly.Feature{Type: "misc_feature", SequenceLocation: loc})
		got := seq.Features[0].GetSequence()
		if i == 0 {
			s = got
			// the same record after an edit of its bases (same length, every letter replaced by its successor in
			// ACGT, case kept): the feature now reports the bases of the record as it is - the first reading again,
			// letter for letter through the same replacement
			seq.Sequence = shiftLetters(parent)
			if again := seq.Features[0].GetSequence(); len(again) != len(got) {
				return again, fmt.Errorf("after the parent's bases were replaced the feature sequence has %d letters, before %d", len(again), len(got))
			} else if again != featureOfShifted(parent, seq.Features[0]) {
				return again, fmt.Errorf("after the parent's bases were replaced (%q -> %q) the same feature reports %q; a fresh record holding the new bases reports %q", clipSeq(parent), clipSeq(seq.Sequence), clipSeq(again), clipSeq(featureOfShifted(parent, seq.Features[0])))
			}
		} else if got != s {
			return got, fmt.Errorf("on %s the feature sequence is %q, on %s %q", fr.what, got, frames[0].what, s)
		}
	}
	return s, nil
}

// shiftLetters replaces A C G T (either case) by C G T A; other letters stay.
func shiftLetters(p string) string {
	b := []byte(p)
	for i, c := range b {
		if k := strings.IndexByte("ACGT", c&^0x20); k >= 0 {
			b[i] = "CGTA"[k] | c&0x20
		}
	}
	return string(b)
}

// featureOfShifted: what the feature's location gives on a fresh record holding the shifted bases.
func featureOfShifted(parent string, f poly.Feature) string {
	fresh := poly.Sequence{Sequence: shiftLetters(parent)}
	fresh.AddFeature(&poly.Feature{Type: f.Type, SequenceLocation: f.SequenceLocation})
	return fresh.Features[0].GetSequence()
}

func clipSeq(s string) string {
	if len(s) > 80 {
		return fmt.Sprintf("%s…(%d)", s[:80], len(s))
	}
	return s
}

// minimal record for the public route; the location is wrapped after commas like NCBI does
func record(parent, loc string, topology ...string) []byte {
	topo := "linear  "
	if len(topology) > 0 {
		topo = topology[0]
	}
	var b strings.Builder
	fmt.Fprintf(&b, "LOCUS       verif%18d bp    DNA     %s SYN 01-JAN-2020\nDEFINITION  location test.\nFEATURES             Location/Qualifiers\n", len(parent), topo)
	line := "     misc_feature    "
	rest := loc
	for len(rest) > 58 {
		cut := strings.LastIndex(rest[:58], ",")
		if cut < 0 {
			break
		}
		b.WriteString(line + rest[:cut+1] + "\n")
		line, rest = "                     ", rest[cut+1:]
	}
	b.WriteString(line + rest + "\n                     /note=\"x\"\nORIGIN\n")
	low := strings.ToLower(parent)
	for i := 0; i < len(low); i += 60 {
		fmt.Fprintf(&b, "%9d", i+1)
		for j := i; j < min(i+60, len(low)); j += 10 {
			b.WriteString(" " + low[j:min(j+10, i+60, len(low))])
		}
		b.WriteString("\n")
	}
	b.WriteString("//\n")
	return []byte(b.String())
}

// recordRoute: the location text inside a GenBank record of the given topology, through genbank.Parse and ParseMulti.
func recordRoute(parent, text, want, topo string) error {
	var err error
	var seq poly.Sequence
	func() {
		defer func() {
			if r := recover(); r != nil {
				err = fmt.Errorf("panic: %v", r)
			}
		}()
		seq = genbank.Parse(record(parent, text, topo))
	}()
	if err != nil {
		return vk.Errf("[%s record] genbank.Parse of a record holding the location %q: %v", strings.TrimSpace(topo), text, err)
	}
	if len(seq.Features) != 1 {
		return vk.Errf("[%s record] genbank.Parse of a record holding the location %q returned %d features", strings.TrimSpace(topo), text, len(seq.Features))
	}
	if seq.Features[0].GbkLocationString != text {
		return vk.Errf("[%s record] genbank.Parse: location text %q read back as %q", strings.TrimSpace(topo), text, seq.Features[0].GbkLocationString)
	}
	var fs string
	func() {
		defer func() {
			if r := recover(); r != nil {
				err = fmt.Errorf("panic: %v", r)
			}
		}()
		fs = seq.Features[0].GetSequence()
	}()
	if err != nil {
		return vk.Errf("[%s record] GetSequence on the parsed feature with location %q: %v", strings.TrimSpace(topo), text, err)
	}
	if !strings.EqualFold(fs, want) {
		return vk.Errf("[%s record] record route: location %q on parent %q: feature sequence %q, INSDC reading %q", strings.TrimSpace(topo), text, parent, fs, want)
	}
	// (a'') the same record as the first of two in one file, through the multi-record parser: each feature must
	// still report the bases of its own record
	other := strings.Repeat("t", len(parent)+3)
	var many []poly.Sequence
	func() {
		defer func() {
			if r := recover(); r != nil {
				err = fmt.Errorf("panic: %v", r)
			}
		}()
		many = genbank.ParseMulti(append(record(parent, text, topo), record(other, fmt.Sprintf("1..%d", len(other)), topo)...))
		if len(many) == 2 && len(many[0].Features) == 1 {
			fs = many[0].Features[0].GetSequence()
		}
	}()
	if err != nil {
		return vk.Errf("[%s record] ParseMulti of two records, the first holding the location %q: %v", strings.TrimSpace(topo), text, err)
	}
	if len(many) != 2 || len(many[0].Features) != 1 {
		return vk.Errf("[%s record] ParseMulti of two records, the first holding the location %q: %d records returned", strings.TrimSpace(topo), text, len(many))
	}
	if !strings.EqualFold(fs, want) {
		return vk.Errf("[%s record] multi-record route: location %q on parent %q (first of two records): feature sequence %q, INSDC reading %q", strings.TrimSpace(topo), text, parent, fs, want)
	}
	return nil
}

func check(c Case) error {
	parent := c.Parent.String()
	n := c.Loc
	if n.MaxPos() > len(parent) {
		return vk.Harnessf("location %s exceeds the parent of %d bases", n.Text(), len(parent))
	}
	want := n.Eval(parent)
	text := n.Text()
	// the same location on sibling parents first (the parent with the first or the last base of the location's first or
	// last leaf replaced by each other letter), results discarded: what a feature reports depends on its own parent
	if len(parent) <= 3000 {
		segs := n.Segments()
		at := map[int]bool{}
		for _, sg := range []insdc.Segment{segs[0], segs[len(segs)-1]} {
			at[sg.A-1], at[sg.B-1] = true, true
		}
		st0 := n.Structure()
		for pos := range at {
			if pos < 0 || pos >= len(parent) {
				continue
			}
			for _, o := range "ACGT" {
				if byte(o) == parent[pos]&^0x20 {
					continue
				}
				sib := parent[:pos] + string(byte(o)|parent[pos]&0x20) + parent[pos+1:]
				_, _ = featureSequenceOnce(sib, st0)
			}
		}
	}
	// (a) text -> poly's parser -> feature sequence
	var parsed poly.Location
	func() {
		defer func() {
			if r := recover(); r != nil {
				parsed = poly.Location{Start: -1}
			}
		}()
		parsed = genbank.VerifParseLocation(text)
	}()
	if parsed.Start == -1 {
		return vk.Errf("parsing the location %q panics", text)
	}
	got, err := featureSequence(parent, parsed)
	if err != nil {
		return vk.Errf("location %q parsed from text: GetSequence fails: %v (parsed as %+v)", text, err, parsed)
	}
	if got != want {
		return vk.Errf("location %q parsed from text on parent %q: feature sequence %q, INSDC reading %q", text, parent, got, want)
	}
	if !insdc.SameSegments(insdc.StructureSegments(parsed), n.Segments()) {
		return vk.Errf("location %q parsed from text: stranded spans and partial ends in reading order %+v, written %+v", text, insdc.StructureSegments(parsed), n.Segments())
	}
	// the parsed location belongs to the caller: written into (coordinates shifted, operands swapped, one appended),
	// the same text parses again to what it says
	gbk.VandaliseLocation(&parsed)
	func() {
		defer func() {
			if r := recover(); r != nil {
				parsed = poly.Location{Start: -1}
			}
		}()
		parsed = genbank.VerifParseLocation(text)
	}()
	if parsed.Start == -1 {
		return vk.Errf("parsing the location %q a second time panics", text)
	}
	if again, err := featureSequenceOnce(parent, parsed); err != nil || again != want || !insdc.SameSegments(insdc.StructureSegments(parsed), n.Segments()) {
		return vk.Errf("location %q parsed a second time, after the caller had written into the first result: feature sequence %q (err %v), spans %+v; INSDC reading %q, spans %+v", text, again, err, insdc.StructureSegments(parsed), want, n.Segments())
	}
	// (a') the same text inside a record (linear, and circular as plasmid files are), through the public parser
	if c.InRecord {
		for _, topo := range []string{"linear  ", "circular"} {
			if err := recordRoute(parent, text, want, topo); err != nil {
				return err
			}
		}
	}
	// (b) assembled as a structure
	st := n.Structure()
	got, err = featureSequence(parent, st)
	if err != nil {
		return vk.Errf("location %s assembled as a structure: GetSequence fails: %v", text, err)
	}
	if got != want {
		return vk.Errf("location %s assembled as a structure on parent %q: feature sequence %q, INSDC reading %q", text, parent, got, want)
	}
	// (c) written back to text. Writing must leave the structure it was given as it is: the same stranded spans and
	// markers, the same feature sequence, the same text when written again.
	written := genbank.BuildLocationString(st)
	if !insdc.SameSegments(insdc.StructureSegments(st), n.Segments()) {
		return vk.Errf("BuildLocationString of %s changed the location it was given: it now reads %+v, before %+v", text, insdc.StructureSegments(st), n.Segments())
	}
	if again, err := featureSequence(parent, st); err != nil || again != want {
		return vk.Errf("after BuildLocationString of %s the same structure gives the feature sequence %q (err %v), before %q", text, again, err, want)
	}
	if second := genbank.BuildLocationString(st); second != written {
		return vk.Errf("BuildLocationString of %s gives %q the first time and %q the second", text, written, second)
	}
	// valid INSDC syntax, same bases, same partial ends
	if n.HasP3() && !c.NoExclusion && vk.KnownActive(knownWriter) {
		vk.CountExcluded("writer clause skipped: location has a 3' partial leaf (K-C02-1)")
		return nil
	}
	back, perr := insdc.ParseStrict(written)
	if perr != nil {
		return vk.Errf("BuildLocationString of %s gives %q, which is not valid INSDC location syntax: %v", text, written, perr)
	}
	if back.MaxPos() > len(parent) {
		return vk.Errf("BuildLocationString of %s gives %q, which runs past the parent", text, written)
	}
	if ev := back.Eval(parent); ev != want {
		return vk.Errf("BuildLocationString of %s gives %q, which denotes %q instead of %q", text, written, ev, want)
	}
	if !insdc.SameSegments(back.Segments(), n.Segments()) {
		return vk.Errf("BuildLocationString of %s gives %q: stranded spans and partial ends in reading order %+v, want %+v", text, written, back.Segments(), n.Segments())
	}
	return nil
}

func mixedJoin(n insdc.Node) bool {
	if n.Kind == "join" {
		kinds := map[string]bool{}
		for _, k := range n.Kids {
			kinds[k.Kind] = true
		}
		if len(kinds) >= 2 {
			return true
		}
	}
	for _, k := range n.Kids {
		if mixedJoin(k) {
			return true
		}
	}
	return false
}

func hasSingle(n insdc.Node) bool {
	if n.Kind == "single" {
		return true
	}
	for _, k := range n.Kids {
		if hasSingle(k) {
			return true
		}
	}
	return false
}

func hasPartial(n insdc.Node) bool {
	for _, m := range n.Markers() {
		if m.P5 || m.P3 {
			return true
		}
	}
	return false
}

func nonTrivial(c Case) bool {
	return c.Loc.Operators() >= 2 || mixedJoin(c.Loc) || hasSingle(c.Loc) || hasPartial(c.Loc)
}

func depth(n insdc.Node) int {
	d := 0
	for _, k := range n.Kids {
		d = max(d, depth(k))
	}
	if n.IsLeaf() {
		return 0
	}
	return d + 1
}

func complementOfJoinInsideJoin(n insdc.Node, inJoin bool) bool {
	if n.Kind == "complement" && n.Kids[0].Kind == "join" && inJoin {
		return true
	}
	for _, k := range n.Kids {
		if complementOfJoinInsideJoin(k, inJoin || n.Kind == "join") {
			return true
		}
	}
	return false
}

func parenthesisedOperands(n insdc.Node) int {
	m := 0
	if n.Kind == "join" {
		c := 0
		for _, k := range n.Kids {
			if !k.IsLeaf() {
				c++
			}
		}
		m = c
	}
	for _, k := range n.Kids {
		m = max(m, parenthesisedOperands(k))
	}
	return m
}

func labels(c Case) []string {
	l := []string{fmt.Sprintf("depth:%d", depth(c.Loc)), fmt.Sprintf("operators:%d", min(c.Loc.Operators(), 6))}
	if mixedJoin(c.Loc) {
		l = append(l, "mixed join")
	}
	if parenthesisedOperands(c.Loc) >= 3 {
		l = append(l, ">=3 parenthesised operands")
	}
	if complementOfJoinInsideJoin(c.Loc, false) {
		l = append(l, "complement of a join inside a join")
	}
	if hasSingle(c.Loc) {
		l = append(l, "single base")
	}
	if c.Loc.HasP3() {
		l = append(l, "3' partial")
	}
	if hasPartial(c.Loc) {
		l = append(l, "partial marker")
	}
	if c.InRecord {
		l = append(l, "record route")
	}
	switch nl := len(c.Loc.Segments()); {
	case nl > 256:
		l = append(l, "leaves:>256")
	case nl > 64:
		l = append(l, "leaves:65..256")
	case nl > 16:
		l = append(l, "leaves:17..64")
	}
	return l
}

func sample(c Case) any {
	p := c.Parent.String()
	if len(p) > 60 {
		p = fmt.Sprintf("%s…(%d)", p[:60], len(p))
	}
	return map[string]any{"parent": p, "location": c.Loc.Text(), "in_record": c.InRecord}
}

var subEnum = vk.Register(&vk.Sub[Case]{Name: "enum", Check: check, NonTrivial: nonTrivial, Sample: sample})
var subCoords = vk.Register(&vk.Sub[Case]{Name: "coords", Check: check, NonTrivial: nonTrivial, Labels: labels, Sample: sample})
var subCorners = vk.Register(&vk.Sub[Case]{Name: "corners", Check: check, NonTrivial: nonTrivial, Labels: labels, Sample: sample})
var subRandom = vk.Register(&vk.Sub[Case]{Name: "random", Gen: gen, Check: check, NonTrivial: nonTrivial, Labels: labels, Sample: sample})

func gen(t *rapid.T) Case {
	alpha := rapid.SampledFrom([]string{"ACGT", "ACGT", "acgt", ref.IUPACCodes, "ACGTRYKMNacgtn"}).Draw(t, "alphabet")
	c := Case{Parent: vk.DrawSeq(t, "parent", alpha, 1, 2000)}
	if rapid.IntRange(0, 3).Draw(t, "long_parent") == 0 { // coordinates with three and four digits
		c.Parent = vk.SeqSpec{Fill: rapid.Uint64().Draw(t, "parent_fill"), N: rapid.IntRange(900, 2000).Draw(t, "parent_len"), Alpha: alpha}
	}
	n := len(c.Parent.String())
	c.Loc = insdc.Draw(t, "loc", n, rapid.IntRange(0, 4).Draw(t, "max_depth"))
	c.InRecord = rapid.IntRange(0, 3).Draw(t, "in_record") == 0
	return c
}

func TestSub_random(t *testing.T) { vk.RunRapid(t, subRandom) }

// TestSub_corners: the widest and deepest expressions of the domain on the longest parent - joins of up to six joins
// of up to six nearly whole-parent spans, alone and under a complement - so that operands of tens of thousands of
// bases occur (a 2000-base parent read 36 times), with span ends varied so that operand lengths fall in many
// residue classes.
func TestSub_corners(t *testing.T) {
	const n = 2000
	parent := vk.SeqSpec{Fill: vk.Seed() + 7, N: n, Alpha: "ACGTacgtRYKMN"}
	vk.RunEnum(t, subCorners, "complement(join(join(a spans) x b)) and join(join(...)) of nearly whole-parent spans on a 2000-base parent, a, b in 2..6, three span families", true, func(yield func(Case) bool) {
		i := 0
		for a := 2; a <= 6; a++ {
			for b := 2; b <= 6; b++ {
				for fam := 0; fam < 3; fam++ {
					var outer []insdc.Node
					for y := 0; y < b; y++ {
						var inner []insdc.Node
						for x := 0; x < a; x++ {
							k := (x*5 + y*3 + fam*11) % 17
							inner = append(inner, insdc.Span(1+(k*(fam+1))%9, n-k))
						}
						outer = append(outer, insdc.Join(inner...))
					}
					for _, loc := range []insdc.Node{insdc.Complement(insdc.Join(outer...)), insdc.Join(outer...), insdc.Join(insdc.Complement(insdc.Join(outer[:2]...)), outer[len(outer)-1])} {
						i++
						if !yield(Case{Parent: parent, Loc: loc, InRecord: i%8 == 0}) {
							return
						}
					}
				}
			}
		}
	})
}

// TestSub_coords puts every coordinate 1..2000 of a 2000-base parent in every role: single base,
// span start, span end, first and last operand of a join, under a complement, with partial markers.
func TestSub_coords(t *testing.T) {
	const n = 2000
	parent := vk.SeqSpec{Fill: vk.Seed(), N: n, Alpha: "ACGTacgtRYN"}
	vk.RunEnum(t, subCoords, "every coordinate 1..2000 of a 2000-base parent as single base, span start and span end, alone, complemented, in joins and with partial markers", true, func(yield func(Case) bool) {
		for p := 1; p <= n; p++ {
			lo, hi := max(1, p-7), min(n, p+7)
			p5 := insdc.Span(p, hi)
			p5.P5 = true
			p3 := insdc.Span(lo, p)
			p3.P3 = true
			other := insdc.Span(max(1, (p*7)%n), min(n, (p*7)%n+30))
			locs := []insdc.Node{
				insdc.Single(p),
				insdc.Span(p, hi),
				insdc.Span(lo, p),
				insdc.Span(1, p),
				insdc.Span(p, n),
				insdc.Complement(insdc.Span(lo, p)),
				insdc.Join(insdc.Span(p, hi), other),
				insdc.Join(other, insdc.Complement(insdc.Join(insdc.Span(lo, p), insdc.Single(hi)))),
				p5,
				insdc.Complement(p5),
				insdc.Join(other, p3),
			}
			for i, l := range locs {
				if !yield(Case{Parent: parent, Loc: l, InRecord: (p+i)%16 == 0}) {
					return
				}
			}
		}
	})
}

func TestSub_enum(t *testing.T) {
	maxOps, maxLeaves := vk.Pick(2, 3), vk.Pick(3, 4)
	parent := vk.SeqSpec{Lit: "ACGTRY"}
	space := fmt.Sprintf("every location over a 6-base parent (21 spans + 6 single bases as leaves) with at most %d operators and at most %d leaves (joins of 2 or 3 operands, no complement directly inside a complement), plus every partial-marker combination on expressions with at most one operator and two leaves", maxOps, maxLeaves)
	vk.RunEnum(t, subEnum, space, true, func(yield func(Case) bool) {
		leaves := insdc.AllLeaves(6)
		i := 0
		if !insdc.Enumerate(leaves, maxOps, maxLeaves, func(n insdc.Node) bool {
			i++
			return yield(Case{Parent: parent, Loc: n, InRecord: i%64 == 0})
		}) {
			return
		}
		// partial markers: spans with each of the 4 marker combinations, alone, complemented and in binary joins
		var marked []insdc.Node
		for _, l := range leaves {
			if l.Kind != "span" {
				marked = append(marked, l)
				continue
			}
			for m := 0; m < 4; m++ {
				s := l
				s.P5, s.P3 = m&1 == 1, m&2 == 2
				marked = append(marked, s)
			}
		}
		insdc.Enumerate(marked, 1, 2, func(n insdc.Node) bool {
			if !hasPartial(n) {
				return true
			}
			return yield(Case{Parent: parent, Loc: n})
		})
	})
}

func TestReplay(t *testing.T) { vk.Replay(t) }

// native coverage-guided fuzzing over the same generator and oracle (thorough tier)
var subFuzz = vk.Register(&vk.Sub[Case]{Name: "random_fuzz", Gen: gen, Check: check})

func FuzzSub_random_fuzz(f *testing.F) { vk.RunFuzz(f, subFuzz) }
