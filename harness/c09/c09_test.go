// C09 — GoldenGate returns exactly the plasmids the overhangs allow.
package c09

import (
	"fmt"
	"runtime"
	"sort"
	"strings"
	"testing"
	"time"

	"github.com/TimothyStiles/poly/clone"
	"pgregory.net/rapid"
	"verifharness/internal/ref"
	"verifharness/internal/refclone"
	"verifharness/internal/vk"
)

const knownOrigin = "K-C09-1" // C10's circular-origin finding K-C10-1 as it shows through GoldenGate: carriers are stored at rotations outside its class

type PartSpec struct {
	Seq      string `json:"seq"`
	Circular bool   `json:"circular"`
}

type Case struct {
	Kind   string          `json:"kind"` // goldengate | ligate | termination
	Enzyme string          `json:"enzyme,omitempty"`
	Parts  []PartSpec      `json:"parts,omitempty"`
	Frags  []refclone.Frag `json:"frags,omitempty"`
	Perm   []int           `json:"perm,omitempty"` // a second input order
	Procs  []int           `json:"gomaxprocs,omitempty"`
	Reps   int             `json:"reps,omitempty"`
	// generator's bookkeeping for the non-triviality rule
	Flipped  int `json:"flipped,omitempty"`
	Decoys   int `json:"decoys,omitempty"`
	Carriers int `json:"circular_carriers,omitempty"`
	// Cassettes / Overlapped: parts that carry more than one cassette; joints at which the reverse site of one
	// cassette and the forward site of the next share letters
	Cassettes  int `json:"several_cassettes,omitempty"`
	Overlapped int `json:"overlapped_sites,omitempty"`
	// NoExclusion: judge the case even if a carrier's rotation is in the class of the known finding (used by its witness)
	NoExclusion bool `json:"no_exclusion,omitempty"`
	// noRecycle: set on the variants check derives from a case (fresh strings, one base exchanged), which derive none
	noRecycle bool
}

func canonSet(parts []clone.Part) (set []string, dup string) {
	seen := map[string]bool{}
	for _, p := range parts {
		c := refclone.CanonicalRing(p.Sequence)
		if seen[c] {
			dup = c
		}
		seen[c] = true
	}
	for k := range seen {
		set = append(set, k)
	}
	sort.Strings(set)
	return
}

func short(s string) string {
	if len(s) > 50 {
		return fmt.Sprintf("%s…(%d)", s[:40], len(s))
	}
	return s
}

func diffSets(got, want []string) string {
	g, w := map[string]bool{}, map[string]bool{}
	for _, x := range got {
		g[x] = true
	}
	for _, x := range want {
		w[x] = true
	}
	var missing, spurious []string
	for _, x := range want {
		if !g[x] {
			missing = append(missing, short(x))
		}
	}
	for _, x := range got {
		if !w[x] {
			spurious = append(spurious, short(x))
		}
	}
	return fmt.Sprintf("%d constructs returned, %d expected; missing %v; spurious %v", len(got), len(want), missing, spurious)
}

func permute[T any](xs []T, perm []int) []T {
	if len(perm) != len(xs) {
		return xs
	}
	out := make([]T, len(xs))
	for i, p := range perm {
		out[i] = xs[p]
	}
	return out
}

// referenceFrags digests every part with the harness's own model.
func referenceFrags(c Case) ([]refclone.Frag, string) {
	e := refclone.BuiltIn[c.Enzyme]
	var frags []refclone.Frag
	for i, p := range c.Parts {
		fs, L := refclone.Digest(p.Seq, p.Circular, e, true)
		if !L.Valid {
			return nil, fmt.Sprintf("part %d: %s", i, L.Why)
		}
		if p.Circular && !c.NoExclusion && vk.KnownActive(knownOrigin) && refclone.InDoublingLossZone(fs, L.N, e, len(e.Site), 0) {
			return nil, fmt.Sprintf("part %d: stored rotation falls into the class of known finding %s (= K-C10-1)", i, knownOrigin)
		}
		for _, f := range fs {
			frags = append(frags, refclone.Frag{Fwd: f.Forward, Seq: f.Interior, Rev: f.Reverse})
		}
	}
	return frags, ""
}

func run(c Case, perm []int) ([]clone.Part, error) {
	if c.Kind == "goldengate" {
		parts := make([]clone.Part, len(c.Parts))
		for i, p := range c.Parts {
			parts[i] = clone.Part{Sequence: p.Seq, Circular: p.Circular}
		}
		out, err := clone.GoldenGate(permute(parts, perm), c.Enzyme)
		if err != nil {
			return nil, vk.Errf("GoldenGate returned error %v", err)
		}
		return out, nil
	}
	frags := make([]clone.Fragment, len(c.Frags))
	for i, f := range c.Frags {
		frags[i] = clone.Fragment{Sequence: f.Seq, ForwardOverhang: f.Fwd, ReverseOverhang: f.Rev}
	}
	return clone.CircularLigate(permute(frags, perm)), nil
}

func check(c Case) error {
	if c.Kind == "termination" {
		return checkTermination(c)
	}
	frags := c.Frags
	if c.Kind == "goldengate" {
		var why string
		frags, why = referenceFrags(c)
		if why != "" {
			vk.Count("case outside the domain (discarded): "+strings.SplitN(why, ": ", 2)[1], 1)
			return nil
		}
	}
	want := refclone.Rings(frags)
	if c.Kind == "goldengate" {
		// the same strings with the other topology first (every linear part declared circular and the other way round),
		// result discarded: what a pool gives depends on the pool that is passed in
		other := c
		other.Parts = make([]PartSpec, len(c.Parts))
		for i, p := range c.Parts {
			other.Parts[i] = PartSpec{Seq: p.Seq, Circular: !p.Circular}
		}
		// ... and the pool as it is with another enzyme (whose sites it need not hold at all)
		otherEnzyme := c
		otherEnzyme.Enzyme = map[string]string{"BsaI": "BbsI", "BbsI": "BtgZI", "BtgZI": "BsaI"}[c.Enzyme]
		_, _ = vk.WithDeadline(30*time.Second, func() { _, _ = run(otherEnzyme, nil) })
		if finished, _ := vk.WithDeadline(30*time.Second, func() { _, _ = run(other, nil) }); !finished {
			sub := subGoldenGate
			if abortSub != nil {
				sub = abortSub
			}
			vk.AbortCase(sub, other, vk.Errf("goldengate did not return within 30 s on the pool with every part's topology flag inverted"))
		}
	}
	old := runtime.GOMAXPROCS(0)
	defer runtime.GOMAXPROCS(old)
	procs := c.Procs
	if len(procs) == 0 {
		procs = []int{old}
	}
	for _, p := range procs {
		runtime.GOMAXPROCS(p)
		for rep := 0; rep < max(1, c.Reps); rep++ {
			var perm []int
			if rep%2 == 1 {
				perm = c.Perm
			}
			var out []clone.Part
			var err error
			finished, perr := vk.WithDeadline(30*time.Second, func() { out, err = run(c, perm) })
			if perr != nil {
				return perr
			}
			if !finished {
				// poly's goroutines are still multiplying: nothing more can be learnt in this process
				sub := subLigate
				if c.Kind == "goldengate" {
					sub = subGoldenGate
				}
				if abortSub != nil {
					sub = abortSub
				}
				vk.AbortCase(sub, c, vk.Errf("%s did not return within 30 s (GOMAXPROCS %d, repetition %d)", c.Kind, p, rep))
			}
			if err != nil {
				return err
			}
			got, dup := canonSet(out)
			allCircular := true
			for i := range out {
				allCircular = allCircular && out[i].Circular
				out[i] = clone.Part{Sequence: "overwritten by the caller"} // the list belongs to the caller
			}
			if dup != "" {
				return vk.Errf("%s (GOMAXPROCS %d, repetition %d): the same molecule is returned twice: %s", c.Kind, p, rep, short(dup))
			}
			if !allCircular {
				return vk.Errf("%s returned a construct that is not marked circular", c.Kind)
			}
			if strings.Join(got, ",") != strings.Join(want, ",") {
				return vk.Errf("%s (GOMAXPROCS %d, repetition %d, permuted=%v): %s", c.Kind, p, rep, perm != nil, diffSets(got, want))
			}
		}
	}
	// the same reaction with every part a fresh string of the same length and one base in its middle exchanged (another
	// plasmid of the same size), three times over, each pool dropped and collected before the next is built
	if c.Kind == "goldengate" && !c.noRecycle {
		for round := 0; round < 3; round++ {
			v := c
			v.noRecycle, v.Procs, v.Reps = true, []int{1}, 1
			v.Parts = make([]PartSpec, len(c.Parts))
			for i, p := range c.Parts {
				v.Parts[i] = PartSpec{Seq: exchangedFarFromSites(p.Seq, refclone.BuiltIn[c.Enzyme].Site, round), Circular: p.Circular}
			}
			if err := check(v); err != nil {
				return fmt.Errorf("on a pool of fresh strings of the same lengths with one base of each part exchanged (round %d, after the earlier pools were dropped and collected): %v", round, err)
			}
			v = Case{}
			runtime.GC()
		}
	}
	return nil
}

// exchangedFarFromSites returns a fresh copy of seq in which one base that lies at least 17 bases away from every
// occurrence of the recognition site (either strand, read around the origin too) is exchanged for another - a change to
// the body of an insert or a backbone, which leaves the design of the reaction (its sites and overhangs) as it is. If
// there is no such base, or the exchange would spell a new site, the copy is unchanged.
func exchangedFarFromSites(seq, site string, round int) string {
	n := len(seq)
	b := []byte(seq)
	if n == 0 || site == "" {
		return string(b)
	}
	up := strings.ToUpper(seq)
	count := func(s string) int {
		d := s + s[:min(len(s), len(site)-1)]
		return strings.Count(d, site) + strings.Count(d, ref.RevComp(site))
	}
	near := make([]bool, n)
	d := up + up[:min(n, len(site)-1)]
	for _, pat := range []string{site, ref.RevComp(site)} {
		for from := 0; ; {
			k := strings.Index(d[from:], pat)
			if k < 0 {
				break
			}
			at := from + k
			for j := at - 17; j < at+len(site)+17; j++ {
				near[((j%n)+n)%n] = true
			}
			from = at + 1
		}
	}
	for k := 0; k < n; k++ {
		at := (n/2 + 7*round + k) % n
		x := strings.IndexByte("ACGTacgt", b[at])
		if near[at] || x < 0 {
			continue
		}
		old := b[at]
		b[at] = "CATGcatg"[x]
		if count(strings.ToUpper(string(b))) == count(up) {
			return string(b)
		}
		b[at] = old
	}
	return string(b)
}

// checkTermination: the simulation returns for pools whose overhangs close a cycle that
// excludes the seed fragment. Always judged in a child process with a memory cap, because a
// runaway recursion allocates without bound.
func checkTermination(c Case) error {
	if vk.InChild() {
		done, err := vk.WithDeadline(20*time.Second, func() {
			out, _ := run(Case{Kind: "ligate", Frags: c.Frags}, nil)
			if _, dup := canonSet(out); dup != "" {
				panic("the same molecule is returned twice: " + short(dup))
			}
		})
		if err != nil {
			return err
		}
		if !done {
			return vk.Errf("CircularLigate did not return within 20 s for a pool of %d fragments", len(c.Frags))
		}
		return nil
	}
	res := vk.RunInChild(subTermination, c, 40*time.Second, 4096)
	if res.Status == "pass" {
		return nil
	}
	// confirm in a second fresh process before reporting
	res2 := vk.RunInChild(subTermination, c, 80*time.Second, 4096)
	if res2.Status == "pass" {
		vk.Count("inconclusive_deadline (first child failed, second passed)", 1)
		return nil
	}
	return vk.Errf("CircularLigate does not terminate (or dies) on a pool of %d fragments whose overhangs close a cycle that excludes a seed: child process %s / %s\n%s", len(c.Frags), res.Status, res2.Status, res2.Output)
}

func nonTrivial(c Case) bool {
	if c.Kind == "termination" {
		return true
	}
	frags := c.Frags
	if c.Kind == "goldengate" {
		var why string
		frags, why = referenceFrags(c)
		if why != "" {
			return false
		}
	}
	return len(refclone.Rings(frags)) >= 2 || c.Flipped > 0 || c.Decoys > 0 || c.Carriers > 0
}

func labels(c Case) []string {
	l := []string{"kind:" + c.Kind}
	if c.Kind == "termination" {
		if len(c.Frags) > 9 {
			l = append(l, "more than nine fragments")
		}
		return l
	}
	frags := c.Frags
	if c.Kind == "goldengate" {
		l = append(l, "enzyme:"+c.Enzyme)
		var why string
		frags, why = referenceFrags(c)
		if why != "" {
			return append(l, "discarded")
		}
	}
	n := len(refclone.Rings(frags))
	l = append(l, fmt.Sprintf("rings:%d", min(n, 9)))
	if c.Flipped > 0 {
		l = append(l, "has flipped fragment")
	}
	if c.Decoys > 0 {
		l = append(l, "has decoy")
	}
	if c.Carriers > 0 {
		l = append(l, "has circular carrier")
	}
	if c.Cassettes > 0 {
		l = append(l, "has a part with several cassettes")
	}
	if c.Overlapped > 0 {
		l = append(l, "has overlapping reverse and forward sites")
	}
	return l
}

func sample(c Case) any {
	m := map[string]any{"kind": c.Kind, "gomaxprocs": c.Procs, "reps": c.Reps}
	if c.Kind == "goldengate" {
		m["enzyme"] = c.Enzyme
		var ps []string
		for _, p := range c.Parts {
			ps = append(ps, fmt.Sprintf("%s %s", map[bool]string{true: "circular", false: "linear"}[p.Circular], short(p.Seq)))
		}
		m["parts"] = ps
	} else {
		var fs []string
		for _, f := range c.Frags {
			fs = append(fs, fmt.Sprintf("%s-%s-%s", f.Fwd, short(f.Seq), f.Rev))
		}
		m["fragments"] = fs
	}
	return m
}

// ---------------------------------------------------------------------------------------
// generators

func word(t *rapid.T, name string, n int, alpha string) string {
	b := make([]byte, n)
	for i := range b {
		b[i] = alpha[rapid.IntRange(0, len(alpha)-1).Draw(t, name)]
	}
	return string(b)
}

// overhangs draws k junction overhangs, pairwise distinct, none palindromic, none the reverse
// complement of another; built by construction (index-based repair instead of rejection).
func overhangs(t *rapid.T, k, h int) []string {
	var out []string
	used := map[string]bool{}
	for len(out) < k {
		o := word(t, "overhang", h, "ACGT")
		for tries := 0; used[o] || used[ref.RevComp(o)] || o == ref.RevComp(o); tries++ {
			// deterministic repair: advance the word like a counter
			b := []byte(o)
			for i := len(b) - 1; i >= 0; i-- {
				idx := strings.IndexByte("ACGT", b[i])
				b[i] = "ACGT"[(idx+1)%4]
				if idx != 3 {
					break
				}
			}
			o = string(b)
		}
		used[o] = true
		out = append(out, o)
	}
	return out
}

type design struct {
	frags            []refclone.Frag // oriented as designed
	flipped, decoys  int
	junctions        []string
	alternativeCount int
}

// drawDesign draws a design; forced, when not nil, fixes the number of junctions and of alternatives per slot.
func drawDesign(t *rapid.T, h int, maxRings int, forced ...int) design {
	k := len(forced)
	if k == 0 {
		k = rapid.IntRange(1, 6).Draw(t, "junctions")
	}
	os := overhangs(t, k+2, h) // two spare overhangs for decoys
	d := design{junctions: os[:k], alternativeCount: 1}
	for j := 0; j < k; j++ {
		var alts int
		if len(forced) > 0 {
			alts = forced[j]
		} else if alts = rapid.IntRange(1, 3).Draw(t, fmt.Sprintf("slot%d_alternatives", j)); d.alternativeCount*alts > maxRings {
			alts = 1
		}
		d.alternativeCount *= alts
		for a := 0; a < alts; a++ {
			insLen := 0
			if rapid.IntRange(0, 3).Draw(t, fmt.Sprintf("slot%d_insert%d_empty", j, a)) != 0 { // a quarter of the inserts are empty
				insLen = rapid.IntRange(0, 30).Draw(t, fmt.Sprintf("slot%d_insert%d_len", j, a))
			}
			ins := word(t, fmt.Sprintf("slot%d_insert%d", j, a), insLen, "ACGT")
			d.frags = append(d.frags, refclone.Frag{Fwd: os[j], Seq: ins, Rev: os[(j+1)%k]})
		}
	}
	nd := rapid.IntRange(0, 2).Draw(t, "decoys")
	for i := 0; i < nd; i++ {
		from := os[rapid.IntRange(0, k-1).Draw(t, "decoy_from")]
		f := refclone.Frag{Fwd: from, Seq: word(t, "decoy_insert", rapid.IntRange(0, 12).Draw(t, "decoy_len"), "ACGT"), Rev: os[k+i]}
		if rapid.Bool().Draw(t, "decoy_reversed") {
			f = refclone.Frag{Fwd: os[k+i], Seq: f.Seq, Rev: from}
		}
		d.frags = append(d.frags, f)
		d.decoys++
	}
	if rapid.IntRange(0, 3).Draw(t, "duplicate") == 0 {
		d.frags = append(d.frags, d.frags[rapid.IntRange(0, len(d.frags)-1).Draw(t, "duplicate_of")])
	}
	return d
}

func flip(f refclone.Frag) refclone.Frag {
	return refclone.Frag{Fwd: ref.RevComp(f.Rev), Seq: ref.RevComp(f.Seq), Rev: ref.RevComp(f.Fwd)}
}

func schedule(t *rapid.T, c *Case, n int) {
	c.Procs = []int{1, 2, 16}
	c.Reps = vk.Pick(20, 50)
	c.Perm = rapid.Permutation(seqInts(n)).Draw(t, "input_order")
}

func seqInts(n int) []int {
	x := make([]int, n)
	for i := range x {
		x[i] = i
	}
	return x
}

func genLigate(t *rapid.T) Case { return genLigateFor(t) }

func genLigateFor(t *rapid.T, forced ...int) Case {
	d := drawDesign(t, rapid.SampledFrom([]int{4, 4, 3, 5}).Draw(t, "overhang_len"), vk.Pick(12, 27), forced...)
	c := Case{Kind: "ligate", Decoys: d.decoys}
	for i, f := range d.frags {
		if rapid.IntRange(0, 3).Draw(t, fmt.Sprintf("frag%d_flipped", i)) == 0 {
			f = flip(f)
			c.Flipped++
		}
		c.Frags = append(c.Frags, f)
	}
	c.Frags = permute(c.Frags, rapid.Permutation(seqInts(len(c.Frags))).Draw(t, "shuffle"))
	schedule(t, &c, len(c.Frags))
	return c
}

func genGoldenGate(t *rapid.T) Case { return genGoldenGateFor(t) }

// genCorners: the corners of the design space that the capped generators above do not reach - every
// slot with the maximum of three alternatives (729 plasmids from 18 parts), and its neighbours. One
// schedule (all cores), two input orders.
func genCorners(t *rapid.T) Case {
	forced := rapid.SampledFrom([][]int{{3, 3, 3, 3, 3, 3}, {3, 3, 3, 3, 3, 3}, {3, 3, 3, 3, 3, 1}, {2, 3, 3, 2, 3, 3}, {3, 3, 3, 3, 3}, {2, 2, 2, 2, 2, 2}}).Draw(t, "corner")
	var c Case
	if rapid.Bool().Draw(t, "through_goldengate") {
		c = genGoldenGateFor(t, forced...)
	} else {
		c = genLigateFor(t, forced...)
	}
	c.Procs = []int{rapid.SampledFrom([]int{16, 16, 1, 2}).Draw(t, "procs")}
	c.Reps = 2
	return c
}

func genGoldenGateFor(t *rapid.T, forced ...int) Case {
	name := rapid.SampledFrom([]string{"BsaI", "BbsI", "BtgZI"}).Draw(t, "enzyme")
	e := refclone.BuiltIn[name]
	d := drawDesign(t, e.OverhangLen, vk.Pick(12, 27), forced...)
	c := Case{Kind: "goldengate", Enzyme: name, Decoys: d.decoys}
	// the longest suffix of the reverse site that is a prefix of the forward site (BtgZI: CATCGC / GCGATG share GC)
	shared := 0
	for k := len(e.Site) - 1; k > 0; k-- {
		if strings.HasSuffix(ref.RevComp(e.Site), e.Site[:k]) {
			shared = k
			break
		}
	}
	for i := 0; i < len(d.frags); i++ {
		f := d.frags[i]
		pad := func(nm string) string { return word(t, fmt.Sprintf("part%d_%s", i, nm), e.Skip, "ACGT") }
		flank := func(nm string, lo int) string {
			n := lo
			if lo > 0 || rapid.IntRange(0, 2).Draw(t, fmt.Sprintf("part%d_%s_empty", i, nm)) != 0 { // a third of the optional flanks are empty
				n = rapid.IntRange(lo, 25).Draw(t, fmt.Sprintf("part%d_%s_len", i, nm))
			}
			return word(t, fmt.Sprintf("part%d_%s", i, nm), n, "AT")
		}
		core := e.Site + pad("skipL") + f.Fwd + f.Seq + f.Rev + pad("skipR") + ref.RevComp(e.Site)
		// one part in four carries further cassettes (the next fragments of the design) behind the first: back to back
		// with the two sites sharing their common letters where the enzyme allows it, abutting, or after a gap
		for first := i; i+1 < len(d.frags) && i-first < 3 && rapid.IntRange(0, 3).Draw(t, fmt.Sprintf("part%d_further_cassette", i)) == 0; {
			i++
			g := d.frags[i]
			next := e.Site + pad("skipL") + g.Fwd + g.Seq + g.Rev + pad("skipR") + ref.RevComp(e.Site)
			if rapid.Bool().Draw(t, fmt.Sprintf("part%d_cassette_reversed", i)) {
				next = ref.RevComp(next)
			}
			switch joint := rapid.IntRange(0, 3).Draw(t, fmt.Sprintf("part%d_joint", i)); {
			case joint == 0 && shared > 0:
				core += next[shared:]
				c.Overlapped++
			case joint <= 1:
				core += next
			case joint == 2:
				core += word(t, fmt.Sprintf("part%d_gap", i), rapid.IntRange(1, 3).Draw(t, fmt.Sprintf("part%d_gap_len", i)), "ACGT") + next
			default:
				core += word(t, fmt.Sprintf("part%d_gap", i), rapid.IntRange(4, 30).Draw(t, fmt.Sprintf("part%d_gap_len", i)), "AT") + next
			}
			if i-first == 1 {
				c.Cassettes++
			}
		}
		p := PartSpec{}
		if rapid.IntRange(0, 2).Draw(t, fmt.Sprintf("part%d_circular", i)) == 0 {
			// circular carrier: backbone of 10..60 bases, stored at a drawn rotation
			p.Circular = true
			c.Carriers++
			backboneMin := 10
			if rapid.IntRange(0, 5).Draw(t, fmt.Sprintf("part%d_short_backbone", i)) == 0 {
				backboneMin = 0 // down to a carrier that is nothing but the cassette
			}
			seq := core + flank("backbone", backboneMin) + flank("backbone2", 0)
			r := rapid.IntRange(0, len(seq)-1).Draw(t, fmt.Sprintf("part%d_rotation", i))
			if vk.KnownActive(knownOrigin) {
				fs, L := refclone.Digest(seq, true, e)
				for tries := 0; L.Valid && refclone.InDoublingLossZone(fs, L.N, e, len(e.Site), r) && tries < len(seq); tries++ {
					r = (r + 1) % len(seq) // next rotation outside the class of C10's known finding
					if tries == 0 {
						vk.CountExcluded("carrier rotation moved out of the class of K-C10-1")
					}
				}
			}
			p.Seq = seq[r:] + seq[:r]
		} else {
			p.Seq = flank("flankL", 0) + core + flank("flankR", 0)
		}
		if rapid.IntRange(0, 3).Draw(t, fmt.Sprintf("part%d_reverse_complemented", i)) == 0 {
			p.Seq = ref.RevComp(p.Seq)
			c.Flipped++
		}
		if rapid.IntRange(0, 4).Draw(t, fmt.Sprintf("part%d_lowercase", i)) == 0 {
			p.Seq = strings.ToLower(p.Seq)
		}
		c.Parts = append(c.Parts, p)
	}
	if rapid.IntRange(0, 3).Draw(t, "part_without_sites") == 0 {
		c.Parts = append(c.Parts, PartSpec{Seq: word(t, "siteless", rapid.IntRange(20, 60).Draw(t, "siteless_len"), "AT")})
		c.Decoys++
	}
	c.Parts = permute(c.Parts, rapid.Permutation(seqInts(len(c.Parts))).Draw(t, "shuffle"))
	schedule(t, &c, len(c.Parts))
	return c
}

// genTermination: pools with a back edge: a tail o0 -> o1 -> ... entering a cycle that does not
// contain o0, optionally reachable only through a flipped fragment.
func genTermination(t *rapid.T) Case {
	tailLen := rapid.IntRange(1, 3).Draw(t, "tail")
	cycleLen := rapid.IntRange(1, 4).Draw(t, "cycle")
	// one pool in four has a long cycle or a long tail: "every finite pool" - how many fragments lie on the cycle, or
	// before it, is no reason not to return
	switch rapid.IntRange(0, 7).Draw(t, "long") {
	case 0:
		cycleLen = rapid.IntRange(5, 20).Draw(t, "cycle_long")
	case 1:
		tailLen = rapid.IntRange(4, 12).Draw(t, "tail_long")
		cycleLen = rapid.SampledFrom([]int{1, 2, 7, 8, 9, 10, 15, 16, 17}).Draw(t, "cycle_edge")
	}
	os := overhangs(t, tailLen+cycleLen, 4)
	c := Case{Kind: "termination"}
	ins := func(nm string) string { return word(t, nm, rapid.IntRange(0, 8).Draw(t, nm+"_len"), "ACGT") }
	for i := 0; i < tailLen; i++ {
		c.Frags = append(c.Frags, refclone.Frag{Fwd: os[i], Seq: ins(fmt.Sprintf("tail%d", i)), Rev: os[i+1]})
	}
	for i := 0; i < cycleLen; i++ {
		c.Frags = append(c.Frags, refclone.Frag{Fwd: os[tailLen+i], Seq: ins(fmt.Sprintf("cycle%d", i)), Rev: os[tailLen+(i+1)%cycleLen]})
	}
	for i := range c.Frags {
		if rapid.IntRange(0, 3).Draw(t, fmt.Sprintf("frag%d_flipped", i)) == 0 {
			c.Frags[i] = flip(c.Frags[i])
			c.Flipped++
		}
	}
	c.Frags = permute(c.Frags, rapid.Permutation(seqInts(len(c.Frags))).Draw(t, "shuffle"))
	return c
}

var subLigate, subGoldenGate, subTermination, subCorners *vk.Sub[Case]

// abortSub names the sub-check under which a runaway case is reported (set by the sub-checks that share a case kind).
var abortSub *vk.Sub[Case]

func init() {
	subLigate = vk.Register(&vk.Sub[Case]{Name: "ligate", Gen: genLigate, Check: check, NonTrivial: nonTrivial, Labels: labels, Sample: sample, PreRecord: true})
	subGoldenGate = vk.Register(&vk.Sub[Case]{Name: "goldengate", Gen: genGoldenGate, Check: check, NonTrivial: nonTrivial, Labels: labels, Sample: sample, PreRecord: true})
	subCorners = vk.Register(&vk.Sub[Case]{Name: "corners", Gen: genCorners, Check: check, NonTrivial: nonTrivial, Labels: labels, Sample: sample, PreRecord: true})
	subTermination = vk.Register(&vk.Sub[Case]{Name: "termination", Gen: genTermination, Check: check, NonTrivial: nonTrivial, Labels: labels, Sample: sample})
}

func TestSub_ligate(t *testing.T)      { vk.RunRapid(t, subLigate) }
func TestSub_goldengate(t *testing.T)  { vk.RunRapid(t, subGoldenGate) }
func TestSub_corners(t *testing.T)     { abortSub = subCorners; vk.RunRapid(t, subCorners) }
func TestSub_termination(t *testing.T) { vk.RunRapid(t, subTermination) }

func TestReplay(t *testing.T) { vk.Replay(t) }
