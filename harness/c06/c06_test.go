// C06 — translation implements the NCBI genetic codes codon by codon.
package c06

import (
	"fmt"
	"sort"
	"strings"
	"testing"

	"github.com/TimothyStiles/poly/transform/codon"
	"pgregory.net/rapid"
	"verifharness/internal/ctab"
	"verifharness/internal/ref"
	"verifharness/internal/vk"
)

type Case struct {
	Table    int        `json:"table"`
	Kind     string     `json:"kind"` // codon | lists | string
	Seq      vk.SeqSpec `json:"seq"`  // upper-case A/C/G/T
	CaseMask uint64     `json:"case_mask"`
	// Prior: a sequence translated (with the same table) immediately before the judged calls, its result discarded
	Prior string `json:"prior,omitempty"`
}

func applyCase(s string, mask uint64) string {
	b := []byte(s)
	for i := range b {
		if (mask>>(uint(i+i/64)%64))&1 == 1 {
			b[i] = b[i] - 'A' + 'a'
		}
	}
	return string(b)
}

func translate(s string, table codon.Table) (string, error) {
	if s == "" {
		return "", nil // the empty input has no complete codon; poly reports it as an error, which the property does not cover
	}
	return codon.Translate(s, table)
}

func sameMultiset(a, b []string) bool {
	x, y := append([]string{}, a...), append([]string{}, b...)
	sort.Strings(x)
	sort.Strings(y)
	return strings.Join(x, ",") == strings.Join(y, ",") && len(x) == len(y)
}

func check(c Case) error {
	g, ok := ref.GeneticCodeByID(c.Table)
	if !ok {
		return vk.Harnessf("no reference for table %d", c.Table)
	}
	table := codon.GetCodonTable(c.Table)
	if c.Kind == "lists" {
		if err := judgeLists(c, g, table); err != nil {
			return err
		}
		// the table value belongs to the caller, who extends it into a table of his own: a start codon, a stop codon and an
		// amino acid appended to its three lists (no element of any list is written: elements are shared, see K-C08-1). A table requested afterwards is NCBI's again.
		mine := table
		mine.StartCodons = append(mine.StartCodons, "TTA")
		mine.StopCodons = append(mine.StopCodons, "TTA")
		mine.AminoAcids = append(mine.AminoAcids, codon.AminoAcid{Letter: "J"})
		if err := judgeLists(c, g, codon.GetCodonTable(c.Table)); err != nil {
			return vk.Errf("after the caller appended to the lists of an earlier table value: %v", err)
		}
		return nil
	}
	return checkStrings(c, g, table)
}

func judgeLists(c Case, g ref.GeneticCode, table codon.Table) error {
	{
		if !sameMultiset(table.StartCodons, g.Starts) {
			return vk.Errf("table %d (%s): start codons %v, NCBI lists %v", c.Table, g.Name, table.StartCodons, g.Starts)
		}
		if !sameMultiset(table.StopCodons, g.Stops) {
			return vk.Errf("table %d (%s): stop codons %v, NCBI lists %v", c.Table, g.Name, table.StopCodons, g.Stops)
		}
		// the table must cover each of the 64 codons exactly once
		seen := map[string]int{}
		for _, aa := range table.AminoAcids {
			for _, cd := range aa.Codons {
				seen[cd.Triplet]++
				if len(aa.Letter) != 1 || aa.Letter[0] != g.AminoAcid(cd.Triplet) {
					return vk.Errf("table %d (%s): codon %s is listed under %q, NCBI assigns %c", c.Table, g.Name, cd.Triplet, aa.Letter, g.AminoAcid(cd.Triplet))
				}
			}
		}
		for _, cd := range ref.AllCodons() {
			if seen[cd] != 1 {
				return vk.Errf("table %d (%s): codon %s occurs %d times in the table", c.Table, g.Name, cd, seen[cd])
			}
		}
		return nil
	}
}

func checkStrings(c Case, g ref.GeneticCode, table codon.Table) error {
	upper := c.Seq.String()
	in := applyCase(upper, c.CaseMask)
	for _, sib := range vk.Siblings(upper) { // related inputs first, results discarded
		_, _ = translate(sib, table)
	}
	for _, st := range vk.Stems(upper) { // the steps of building the input up, ending with the one that lacks only the last letter
		_, _ = translate(st, table)
	}
	if c.Prior != "" {
		_, _ = translate(c.Prior, table)
	}
	// the same input under two other genetic codes first, results discarded (a result depends on both arguments)
	for _, other := range []int{1 + (c.Table+3)%6, 11 + (c.Table+1)%4} {
		if other != c.Table {
			_, _ = translate(in, codon.GetCodonTable(other))
		}
	}
	want := g.TranslateRef(upper)
	got, err := translate(in, table)
	if err != nil {
		return vk.Errf("Translate(%q, table %d) returned error %v", in, c.Table, err)
	}
	if got != want {
		i := 0
		for i < len(got) && i < len(want) && got[i] == want[i] {
			i++
		}
		cd := ""
		if 3*i+3 <= len(in) {
			cd = in[3*i : 3*i+3]
		}
		return vk.Errf("table %d (%s): Translate(%q) = %q, NCBI gives %q (first difference at codon %d %q)", c.Table, g.Name, in, got, want, i, cd)
	}
	if len(got) != len(in)/3 {
		return vk.Errf("table %d: %d letters gave %d residues", c.Table, len(in), len(got))
	}
	// the same genetic code held in other ways - a detached copy, a copy whose lists are in another order, copies
	// re-weighted from coding sequences (which leaves the codon-to-amino-acid assignment untouched: all weights
	// zero, weights from this very input, weights from a short gene) - translates the same
	for _, v := range []struct {
		what string
		spec ctab.Spec
	}{
		{"a detached copy", ctab.Spec{ID: c.Table}},
		{"a copy listing amino acids and codons in another order", ctab.Spec{ID: c.Table, Order: 1 + c.CaseMask>>1}},
		{"a copy re-weighted from the empty sequence", ctab.Spec{ID: c.Table, Reweight: true}},
		{"a copy re-weighted from this input", ctab.Spec{ID: c.Table, Reweight: true, Seq: vk.SeqSpec{Lit: upper}}},
		{"a copy re-weighted twice, last from a short gene", ctab.Spec{ID: c.Table, Reweight: true, Twice: true, Seq: vk.SeqSpec{Lit: "ATGGCTAAATAA"}}},
	} {
		if (c.Kind == "string" && len(upper) > 300 && c.CaseMask%4 != 0) || (c.Kind != "string" && c.CaseMask != 0) {
			break // long strings: one case in four carries the five extra translations; single codons: the upper-case spelling does
		}
		g2, err := translate(in, v.spec.Build())
		if err != nil || g2 != want {
			return vk.Errf("table %d (%s): Translate(%q) with %s = %q (err %v), NCBI gives %q", c.Table, g.Name, in, v.what, g2, err, want)
		}
	}
	if c.Kind == "string" {
		// case is irrelevant
		for _, v := range []string{upper, strings.ToLower(upper)} {
			g2, err := translate(v, table)
			if err != nil || g2 != got {
				return vk.Errf("table %d: Translate(%q) = %q (err %v) but Translate(%q) = %q", c.Table, v, g2, err, in, got)
			}
		}
		// concatenation at every codon boundary; a trailing partial codon is ignored
		for cut := 0; cut <= len(in); cut += 3 {
			a, errA := translate(in[:cut], table)
			b, errB := translate(in[cut:], table)
			if errA != nil || errB != nil || a+b != got {
				return vk.Errf("table %d: Translate(%q)+Translate(%q) = %q+%q (errors %v, %v) but Translate of the concatenation = %q", c.Table, in[:cut], in[cut:], a, b, errA, errB, got)
			}
		}
		if r := len(in) % 3; r != 0 {
			t2, err := translate(in[:len(in)-r], table)
			if err != nil || t2 != got {
				return vk.Errf("table %d: dropping the trailing %d letters of %q changes the translation %q -> %q (err %v)", c.Table, r, in, got, t2, err)
			}
		}
	}
	return nil
}

func nonTrivial(c Case) bool {
	g, _ := ref.GeneticCodeByID(c.Table)
	if c.Kind == "lists" {
		return true
	}
	s := c.Seq.String()
	for i := 0; i+3 <= len(s); i += 3 {
		if _, ok := g.Diff[s[i:i+3]]; ok {
			return true
		}
	}
	return false
}

func labels(c Case) []string {
	l := []string{fmt.Sprintf("table:%d", c.Table), fmt.Sprintf("len mod 3 = %d", len(c.Seq.String())%3)}
	if len(c.Seq.String()) < 3 {
		l = append(l, "no complete codon")
	}
	return l
}

func sample(c Case) any {
	return map[string]any{"table": c.Table, "kind": c.Kind, "input": applyCase(c.Seq.String(), c.CaseMask)}
}

var subCodons = vk.Register(&vk.Sub[Case]{Name: "codons", Check: check, NonTrivial: nonTrivial, Sample: sample})
var subStrings = vk.Register(&vk.Sub[Case]{Name: "strings", Gen: gen, Check: check, NonTrivial: nonTrivial, Labels: labels, Sample: sample})

func TestSub_codons(t *testing.T) {
	space := "25 table ids x 64 codons x all 8 letter-case patterns, each codon alone and all 64 codons in one string; start and stop lists and codon coverage of each table"
	vk.RunEnum(t, subCodons, space, true, func(yield func(Case) bool) {
		for _, g := range ref.GeneticCodes {
			if !yield(Case{Table: g.ID, Kind: "lists"}) {
				return
			}
			for _, cd := range ref.AllCodons() {
				for m := uint64(0); m < 8; m++ {
					if !yield(Case{Table: g.ID, Kind: "codon", Seq: vk.SeqSpec{Lit: cd}, CaseMask: m}) {
						return
					}
				}
			}
			all := strings.Join(ref.AllCodons(), "")
			for _, m := range []uint64{0, ^uint64(0), 0x5555555555555555, 0x3333333333333333} {
				if !yield(Case{Table: g.ID, Kind: "string", Seq: vk.SeqSpec{Lit: all}, CaseMask: m}) {
					return
				}
			}
		}
	})
}

func gen(t *rapid.T) Case {
	ids := make([]int, len(ref.GeneticCodes))
	for i, g := range ref.GeneticCodes {
		ids[i] = g.ID
	}
	c := Case{Kind: "string", Table: rapid.SampledFrom(ids).Draw(t, "table")}
	c.Seq = vk.DrawSeq(t, "seq", "ACGT", 1, 3000)
	if rapid.IntRange(0, 5).Draw(t, "gene_shaped") == 0 { // start codon, whole codons, stop codon - as real coding sequences are
		c.Seq = vk.SeqSpec{Lit: strings.ToUpper(ctab.DrawGene(t, "gene", c.Table, 999))}
	}
	// splice in codons the table reassigns so that the interesting cells are hit often
	g, _ := ref.GeneticCodeByID(c.Table)
	if len(g.Diff) > 0 && rapid.Bool().Draw(t, "splice") {
		keys := make([]string, 0, len(g.Diff))
		for k := range g.Diff {
			keys = append(keys, k)
		}
		sort.Strings(keys)
		s := c.Seq.String()
		k := rapid.SampledFrom(keys).Draw(t, "reassigned")
		pos := 0
		if len(s) >= 3 {
			pos = 3 * rapid.IntRange(0, len(s)/3).Draw(t, "at_codon")
		}
		pos = min(pos, len(s))
		c.Seq = vk.SeqSpec{Lit: s[:pos] + k + s[pos:]}
	}
	c.CaseMask = rapid.Uint64().Draw(t, "case_mask")
	return c
}

func TestSub_strings(t *testing.T) { vk.RunRapid(t, subStrings) }

var subCollisions = vk.Register(&vk.Sub[Case]{Name: "collisions", Check: check, NonTrivial: func(Case) bool { return true }, Sample: sample})

// TestSub_collisions: the two sequences of every checksum-colliding pair (vk.CollidingPairs) one directly after the other.
func TestSub_collisions(t *testing.T) {
	vk.RunEnum(t, subCollisions, "every checksum-colliding pair of 30-mers x both orders x tables 1, 2, 11", true, func(yield func(Case) bool) {
		for _, pr := range vk.CollidingPairs() {
			for _, id := range []int{1, 2, 11} {
				for _, o := range [][2]string{{pr.A, pr.B}, {pr.B, pr.A}} {
					if !yield(Case{Table: id, Kind: "string", Seq: vk.SeqSpec{Lit: o[1]}, Prior: o[0], CaseMask: 0x3c}) {
						return
					}
				}
			}
		}
	})
}

// ---------------------------------------------------------------------------------------
// wraps: a call is answered from its own arguments whatever the number of calls since the same codon was last seen - in
// particular when that number is one at which an 8- or 16-bit call counter, epoch or generation stamp comes round again.

type WrapCase struct {
	Codon    string `json:"codon"`
	First    int    `json:"first_table"`
	Then     int    `json:"then_table"`
	Distance int    `json:"calls_between"`
}

func checkWrap(c WrapCase) error {
	g, _ := ref.GeneticCodeByID(c.Then)
	filler := "GGG"
	if c.Codon == filler {
		filler = "CCC"
	}
	a, b := codon.GetCodonTable(c.First), codon.GetCodonTable(c.Then)
	_, _ = translate(c.Codon, a)
	for i := 0; i < c.Distance; i++ {
		_, _ = translate(filler, a)
	}
	got, err := translate("ATG"+c.Codon+c.Codon, b)
	if want := g.TranslateRef("ATG" + c.Codon + c.Codon); err != nil || got != want {
		return vk.Errf("Translate(%q, table %d) = %q (err %v), NCBI gives %q - %d calls after the codon %s was last translated, then with table %d", "ATG"+c.Codon+c.Codon, c.Then, got, err, want, c.Distance+1, c.Codon, c.First)
	}
	return nil
}

var subWraps = vk.Register(&vk.Sub[WrapCase]{Name: "wraps", Check: checkWrap, NonTrivial: func(WrapCase) bool { return true }})

func TestSub_wraps(t *testing.T) {
	vk.RunEnum(t, subWraps, "three codons that tables 1 and 2 (and 11 and 6) assign differently, translated with one table, then 254..257 and 65534..65537 calls on another codon, then translated with the other table", true, func(yield func(WrapCase) bool) {
		for _, d := range []int{254, 255, 256, 257, 65534, 65535, 65536, 65537} {
			for _, p := range []struct {
				cd   string
				a, b int
			}{{"AGA", 1, 2}, {"TGA", 1, 2}, {"ATA", 2, 1}, {"TAA", 11, 6}} {
				if !yield(WrapCase{Codon: p.cd, First: p.a, Then: p.b, Distance: d}) {
					return
				}
			}
		}
	})
}

func TestReplay(t *testing.T) { vk.Replay(t) }

// native coverage-guided fuzzing over the same generator and oracle (thorough tier)
var subNativeFuzz = vk.Register(&vk.Sub[Case]{Name: "strings_fuzz", Gen: gen, Check: check})

func FuzzSub_strings_fuzz(f *testing.F) { vk.RunFuzz(f, subNativeFuzz) }
