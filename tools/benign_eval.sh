#!/bin/bash
# tools/benign_eval.sh <Cnn> [tier] [also-props...]: a sub-agent's property-PRESERVING rewrite (false-alarm probe):
# apply it in a scratch worktree, run the suite, run the property's check (and further ones) against it.
set -u
prop=$1; tier=${2:-quick}; shift; shift 2>/dev/null
others="$@"
src=${SRC:-/tmp/wtb-$prop/DEMO}; dst=/verif/seeded/${BID:-benign-$prop}
export GOFLAGS=-mod=mod GOPROXY=off GOSUMDB=off GOTOOLCHAIN=local
mkdir -p $dst
if [ -d $src ]; then cp $src/patch.diff $dst/ 2>/dev/null; cp $src/README.md $dst/agent_README.md 2>/dev/null; fi
ev=/tmp/evb-${BID:-$prop}
git -C /repo worktree remove --force $ev 2>/dev/null
git -C /repo worktree add -q $ev HEAD || exit 2
( cd $ev && git apply $dst/patch.diff ) || { echo "patch does not apply"; git -C /repo worktree remove --force $ev; exit 2; }
( cd $ev && go build ./... && go test -vet=off -count=1 ./... > /tmp/evb-${BID:-$prop}.suite.log 2>&1 ); echo "suite with the rewrite: exit $?"
for p in $prop $others; do
  out=/verif/.work/seedruns/${BID:-benign-$prop}-$p; rm -rf $out; mkdir -p $out
  cd /verif && VERIF_REPO=$ev VERIF_OUTDIR=$out VERIF_TIMEOUT=${VERIF_TIMEOUT:-1200} ./verif check $p --tier $tier > /tmp/evb-${BID:-$prop}-$p.check.log 2>&1; rc=$?
  grep -E "VIOLATION|OK property|INCONCLUSIVE|KNOWN|^\[C" /tmp/evb-${BID:-$prop}-$p.check.log | cut -c1-160 | head -6
  echo "check $p exit $rc"
  for f in $(grep -o "replay=[^ ]*" /tmp/evb-${BID:-$prop}-$p.check.log | sed 's/replay=//' | head -3); do python3 -c "
import json,sys,os
p='$f'
p=p if os.path.isabs(p) else os.path.join('/verif',p)
d=json.load(open(p)); print('  ', d.get('sub'), '|', (d.get('error') or d.get('kind') or '')[:500].replace('\n',' '))" 2>/dev/null; done
done
git -C /repo worktree remove --force $ev
