#!/bin/bash
# usage: evalbatch.sh <round> <props...>  (4 at a time)
r=$1; shift
n=0
for p in "$@"; do
  (SRC=/tmp/wt$r-$p/DEMO VERIF_TIMEOUT=300 /verif/tools/seed_eval.sh $p $p-$r > /tmp/r$r-$p.out 2>&1) &
  n=$((n+1)); if [ $((n%${PAR:-5})) -eq 0 ]; then wait; fi
done
wait
for p in "$@"; do echo "== $p"; tail -n 6 /tmp/r$r-$p.out | cut -c1-330; done
