#!/bin/bash
# re-evaluate stored seeds: reseed.sh Cnn-N ...
cd /verif
n=0
for sid in "$@"; do
  prop=${sid%%-*}
  ( SRC=/nonexistent SKIP_DEMO=1 VERIF_TIMEOUT=400 tools/seed_eval.sh $prop $sid > /tmp/rs-$sid.out 2>&1 ) &
  n=$((n+1)); if [ $((n%${PAR:-5})) -eq 0 ]; then wait; fi
done
wait
for sid in "$@"; do v=$(grep -c VIOLATION /tmp/rs-$sid.out); e=$(grep 'check exit' /tmp/rs-$sid.out); echo "$sid violations=$v $e"; done
