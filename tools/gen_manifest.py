#!/usr/bin/env python3
"""Regenerates /verif/MANIFEST.json from checks.json + manifest_meta.json (development aid)."""
import json, os
ROOT = os.path.dirname(os.path.dirname(os.path.abspath(__file__)))
cfg = json.load(open(os.path.join(ROOT, "checks.json")))
meta = json.load(open(os.path.join(ROOT, "manifest_meta.json")))
props = [json.loads(l) for l in open(os.path.join(ROOT, "properties.jsonl"))]
checks, na = [], []
for p in props:
    pid = p["id"]
    if pid in cfg and pid in meta["checks"]:
        m = meta["checks"][pid]
        checks.append({
            "property_id": pid,
            "quick_cmd": f"./verif check {pid} --tier quick",
            "thorough_cmd": f"./verif check {pid} --tier thorough",
            "evidence_file": f"/verif/evidence/{pid}.json",
            "replay_cmd_template": f"./verif replay {pid} {{path}}",
            "engine": "rapid-harness",
            "level_claimed": {"category": "exploration", "text": m["level_text"], "design_ref": m.get("design_ref", f"DESIGN.md section 6, {pid}")},
            "level_note": m["level_note"],
            "technique": m["technique"],
        })
    else:
        na.append({"property_id": pid, "reason": meta.get("not_applicable", {}).get(pid, "check not built yet (work in progress; the design in DESIGN.md section 6 applies)")})
man = {
    "version": 1,
    "setup_cmd": "./verif setup",
    "hooks": meta["hooks"],
    "engines": [{"name": "rapid-harness", "path": "/verif/harness", "serves_properties": [c["property_id"] for c in checks],
                 "kind_free_text": "Go test binaries (pgregory.net/rapid v1.3.0 generators + exhaustive enumerators + independent reference models) built against /repo's working tree through a replace directive, sharded and merged by the python driver /verif/verif"}],
    "checks": checks,
    "notes": meta["notes"],
    "not_applicable": na,
}
json.dump(man, open(os.path.join(ROOT, "MANIFEST.json"), "w"), indent=1)
print("claimed:", [c["property_id"] for c in checks], "not claimed:", [n["property_id"] for n in na])
