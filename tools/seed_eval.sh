#!/bin/bash
# tools/seed_eval.sh <Cnn> <seed-id> [tier]: confirm a sub-agent's seeded change (demo passes without it, fails with it,
# suite passes with it) in a scratch worktree of /repo, then run the property's check against that worktree
# (VERIF_REPO / VERIF_OUTDIR: neither /repo nor the committed evidence is touched) and remove the worktree.
set -u
prop=$1; sid=$2; tier=${3:-quick}
src=${SRC:-/tmp/wt-$prop/DEMO}; dst=/verif/seeded/$sid
export GOFLAGS=-mod=mod GOPROXY=off GOSUMDB=off GOTOOLCHAIN=local
mkdir -p $dst
if [ -d $src ]; then cp $src/patch.diff $src/demo_test.go $dst/ 2>/dev/null; cp $src/README.md $dst/agent_README.md 2>/dev/null; fi
dir=$(head -3 $dst/demo_test.go | grep -o 'package dir: *[^ ]*' | sed 's/package dir: *//')
[ -z "$dir" ] && { echo "no package dir in demo"; exit 2; }
ev=/tmp/ev-$sid
runpat=$(grep -o '^func Test[A-Za-z0-9_]*' $dst/demo_test.go | sed 's/func //' | paste -sd'|')
[ -z "$runpat" ] && runpat='Demo|demo|Seed|C[0-9][0-9]'
git -C /repo worktree remove --force $ev 2>/dev/null
git -C /repo worktree add -q $ev HEAD || exit 2
if [ -n "${SKIP_DEMO:-}" ]; then  # regression of the stored collection: the demonstration was confirmed when the seed was stored
  ( cd $ev && git apply $dst/patch.diff ) || { echo "patch does not apply"; git -C /repo worktree remove --force $ev; exit 2; }
  ( cd $ev && go build ./... ) || { echo "does not build"; git -C /repo worktree remove --force $ev; exit 2; }
else
cp $dst/demo_test.go $ev/$dir/zz_demo_test.go
( cd $ev && go test -vet=off -count=1 -run "^($runpat)\$" ./$dir/ > /tmp/ev-$sid.clean.log 2>&1 ); clean=$?
( cd $ev && git apply $dst/patch.diff ) || { echo "patch does not apply"; git -C /repo worktree remove --force $ev; exit 2; }
( cd $ev && go test -vet=off -count=1 -run "^($runpat)\$" ./$dir/ > /tmp/ev-$sid.mut.log 2>&1 ); mut=$?
rm $ev/$dir/zz_demo_test.go
( cd $ev && go build ./... && go test -vet=off -count=1 ./... > /tmp/ev-$sid.suite.log 2>&1 ); suite=$?
echo "demo on clean tree: exit $clean (want 0); demo with change: exit $mut (want !=0); suite with change: exit $suite (want 0)"
fi
out=/verif/.work/seedruns/$sid; rm -rf $out; mkdir -p $out
cd /verif && VERIF_REPO=$ev VERIF_OUTDIR=$out VERIF_TIMEOUT=${VERIF_TIMEOUT:-900} ./verif check $prop --tier $tier > /tmp/ev-$sid.check.log 2>&1; rc=$?
git -C /repo worktree remove --force $ev
grep -E "VIOLATION|OK property|INCONCLUSIVE|^\[C" /tmp/ev-$sid.check.log | head -6
echo "check exit $rc"
for f in $(grep -o "replay=[^ ]*" /tmp/ev-$sid.check.log | sed 's/replay=//' | head -2); do python3 -c "
import json,sys,os
p='$f'
p=p if os.path.isabs(p) else os.path.join('/verif',p)
d=json.load(open(p)); print('  ', d.get('sub'), '|', (d.get('error') or d.get('kind') or '')[:300].replace('\n',' '))" 2>/dev/null; done
