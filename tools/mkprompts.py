#!/usr/bin/env python3
"""mkprompts.py <round> <hintfile> [props...] - write /tmp/seedprompts/Cnn.prompt<round> for the seeded rounds:
template + property text + flavour hint + the ideas already used for that property (from seeded/*/meta.json)."""
import glob, json, os, sys
args = [a for a in sys.argv[1:] if a != "--relatives"]
relatives = "--relatives" in sys.argv  # the earlier ideas are offered as starting points, not excluded
rnd, hintfile = args[0], args[1]
props = args[2:] or ["C%02d" % i for i in range(1, 21)]
here = os.path.dirname(os.path.abspath(__file__))
sp = os.path.join(here, "seedprompts")
out = "/tmp/seedprompts"
os.makedirs(out, exist_ok=True)
tmpl = open(os.path.join(sp, "TEMPLATE.txt")).read()
hint = open(hintfile).read().strip()
for p in props:
    text = open(os.path.join(sp, p + ".txt")).read().strip()
    used = []
    for m in sorted(glob.glob(os.path.join(here, "..", "seeded", p + "-*", "meta.json"))):
        mj = json.load(open(m))
        b = mj.get("breaks", "")
        if b and relatives:
            used.append("  - " + b[:200] + " [needed to manifest: " + mj.get("needs_to_manifest", "")[:200] + "]")
        elif b:
            used.append("  - " + b[:160])
    wt = "/tmp/wt%s-%s" % (rnd, p)
    s = tmpl.replace("WORKTREE", wt).replace("PROPID", p)
    extra = "\n\nAdditional guidance for this attempt: " + hint
    if used and relatives:
        extra += " The changes planted earlier for this property were:\n" + "\n".join(used) + "\n"
    elif used:
        extra += " To keep this attempt different from earlier ones, do NOT use any of the following ideas, which have been used already for this property:\n" + "\n".join(used) + "\n"
    s = s.replace("PROPTEXT", text + extra + "\n")
    open(os.path.join(out, "%s.prompt%s" % (p, rnd)), "w").write(s)
    print(p, len(s))
