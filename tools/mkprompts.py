#!/usr/bin/env python3
"""mkprompts.py <round> <hintfile> [props...] - write /tmp/seedprompts/Cnn.prompt<round> for the seeded rounds:
template + property text + flavour hint + the ideas already used for that property (from seeded/*/meta.json)."""
import glob, json, os, sys
rnd, hintfile = sys.argv[1], sys.argv[2]
props = sys.argv[3:] or ["C%02d" % i for i in range(1, 21)]
here = os.path.dirname(os.path.abspath(__file__))
sp = os.path.join(here, "seedprompts")
out = "/tmp/seedprompts"
os.makedirs(out, exist_ok=True)
tmpl = open(os.path.join(sp, "TEMPLATE.txt")).read()
hint = open(hintfile).read().strip()
for p in props:
    text = open(os.path.join(sp, p + ".txt")).read().strip()
    used = []
    for m in sorted(glob.glob(os.path.join(here, "..", "seeded", p + "-*", "meta.json"))):
        b = json.load(open(m)).get("breaks", "")
        if b:
            used.append("  - " + b[:160])
    wt = "/tmp/wt%s-%s" % (rnd, p)
    s = tmpl.replace("WORKTREE", wt).replace("PROPID", p)
    extra = "\n\nAdditional guidance for this attempt: " + hint
    if used:
        extra += " To keep this attempt different from earlier ones, do NOT use any of the following ideas, which have been used already for this property:\n" + "\n".join(used) + "\n"
    s = s.replace("PROPTEXT", text + extra + "\n")
    open(os.path.join(out, "%s.prompt%s" % (p, rnd)), "w").write(s)
    print(p, len(s))
