#!/bin/bash
# tools/mut.sh <Cnn> <file-in-repo> <python-regex-or-literal-old> <new> [--tests]  — development aid:
# apply a one-line mutation to /repo, run the quick check, always revert.
set -u
prop=$1; file=$2; old=$3; new=$4
cd /repo || exit 2
if [ -n "$(git status --short)" ]; then echo "repo dirty, refusing"; exit 2; fi
python3 - "$file" "$old" "$new" <<'PY'
import sys
f,old,new=sys.argv[1:4]
s=open(f).read()
if s.count(old)<1: print("PATTERN NOT FOUND"); sys.exit(3)
s=s.replace(old,new,1)
open(f,'w').write(s)
PY
rc=$?
if [ $rc -ne 0 ]; then git checkout -- .; exit 2; fi
export GOFLAGS=-mod=mod GOPROXY=off GOSUMDB=off GOTOOLCHAIN=local
if [ "${5:-}" = "--tests" ]; then go test -vet=off -count=1 ./... 2>&1 | grep -v '^ok' | cut -c1-200 | head -12; fi
cd /verif && ./verif check $prop --tier ${TIER:-quick} 2>&1 | grep -E "VIOLATION|OK property|INCONCLUSIVE|KNOWN|BUILD|^\[C" | head
git -C /repo checkout -- .
git -C /repo status --short
