#!/bin/bash
cd /verif
run() { bid=$1; shift; echo "#### $bid vs $*"; BID=$bid SRC=/nonexistent VERIF_TIMEOUT=600 tools/benign_eval.sh $1 quick "${@:2}" 2>&1 | grep -E 'suite|check|VIOL|\|' | cut -c1-400; }
run benign-C01 C01 C03 C15 C02
run benign-C02 C02 C03 C01
run benign-C03 C03 C01 C15
run benign-C05 C05 C04
run benign-C06 C06 C07 C08 C18
run benign-C07 C07 C08 C18
run benign-C09 C09 C10
run benign-C10 C10 C09
run benign-C12 C12 C04 C05
run benign-C13 C13
run benign-C14 C14 C15
run benign-C15 C15
run benign-C16 C16
run benign-C17 C17
run benign-C18 C18 C07 C08
run benign-C20 C20
run benign2-C01 C01 C02 C03 C15
run benign2-C03 C03 C01 C02 C15
run benign2-C04 C04 C05
run benign2-C05 C05 C04
run benign2-C08 C08 C06 C07 C18
run benign2-C10 C10 C09
run benign2-C11 C11 C02 C04
run benign2-C13 C13
run benign2-C14 C14 C15
run benign2-C16 C16
run benign2-C19 C19
run benign2-C20 C20
run benign3-C01 C01 C02 C03 C15
run benign3-C02 C02 C03 C01
run benign3-C03 C03 C01 C02 C15
run benign3-C04 C04 C05
run benign3-C05 C05 C04
run benign3-C06 C06 C07 C08 C18
run benign3-C07 C07 C06 C18
run benign3-C08 C08 C06 C07 C18
run benign3-C09 C09 C10
run benign3-C10 C10 C09
run benign3-C11 C11 C04 C02
run benign3-C12 C12 C04 C05
run benign3-C13 C13
run benign3-C14 C14 C15
run benign3-C15 C15
run benign3-C16 C16
run benign3-C17 C17
run benign3-C18 C18 C07 C08
run benign3-C19 C19
run benign3-C20 C20
run benign4-C01 C01 C02 C03 C15
run benign4-C02 C02 C03 C01 C15
run benign4-C03 C03 C01 C02 C15
run benign4-C04 C04 C05 C12
run benign4-C05 C05 C04
run benign4-C06 C06 C07 C08 C18
run benign4-C07 C07 C06 C08 C18
run benign4-C08 C08 C06 C07 C18
run benign4-C09 C09 C10
run benign4-C10 C10 C09
run benign4-C11 C11 C02 C04
run benign4-C12 C12 C04 C05
run benign4-C13 C13
run benign4-C14 C14 C15
run benign4-C15 C15 C02 C03
run benign4-C16 C16
run benign4-C17 C17
run benign4-C18 C18 C07 C08
run benign4-C19 C19
run benign4-C20 C20
run benign5-C01 C01 C02 C03 C15
run benign5-C02 C02 C03 C01 C15
run benign5-C03 C03 C01 C02 C15
run benign5-C04 C04 C05 C12
run benign5-C05 C05 C04 C12
run benign5-C06 C06 C07 C08 C18
run benign5-C07 C07 C06 C08 C18
run benign5-C08 C08 C06 C07 C18
run benign5-C09 C09 C10
run benign5-C10 C10 C09
run benign5-C11 C11 C02 C04
run benign5-C12 C12 C04 C05
run benign5-C13 C13
run benign5-C14 C14 C15
run benign5-C15 C15 C02 C03 C14
run benign5-C16 C16
run benign5-C17 C17
run benign5-C18 C18 C07 C08
run benign5-C19 C19
run benign5-C20 C20
echo ALLDONE
